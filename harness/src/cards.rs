//! Card model, independent of espada's own numbering code.
//!
//! card id = rank index (0 = Ace .. 12 = Deuce) * 4 + suit index (0 = s, 1 = h, 2 = d, 3 = c).
//! Conversion to espada values goes through `Card::new` and enum pattern matching only, never
//! through espada's `u8`/`u64`/`char` conversions (those are what C13 checks).

use espada::card::{Card, Rank, Suit};
use espada::hand_range::CardPair;

pub type Cid = u8;

pub const RANK_CH: [char; 13] = [
    'A', 'K', 'Q', 'J', 'T', '9', '8', '7', '6', '5', '4', '3', '2',
];
pub const SUIT_CH: [char; 4] = ['s', 'h', 'd', 'c'];

pub const E_RANKS: [Rank; 13] = [
    Rank::Ace,
    Rank::King,
    Rank::Queen,
    Rank::Jack,
    Rank::Ten,
    Rank::Nine,
    Rank::Eight,
    Rank::Seven,
    Rank::Six,
    Rank::Five,
    Rank::Four,
    Rank::Trey,
    Rank::Deuce,
];
pub const E_SUITS: [Suit; 4] = [Suit::Spade, Suit::Heart, Suit::Diamond, Suit::Club];

#[inline]
pub fn e_rank(r: u8) -> Rank {
    E_RANKS[r as usize]
}
#[inline]
pub fn e_suit(s: u8) -> Suit {
    E_SUITS[s as usize]
}
#[inline]
pub fn e_card(c: Cid) -> Card {
    Card::new(e_rank(c / 4), e_suit(c % 4))
}

#[inline]
pub fn rank_ix(r: &Rank) -> u8 {
    match r {
        Rank::Ace => 0,
        Rank::King => 1,
        Rank::Queen => 2,
        Rank::Jack => 3,
        Rank::Ten => 4,
        Rank::Nine => 5,
        Rank::Eight => 6,
        Rank::Seven => 7,
        Rank::Six => 8,
        Rank::Five => 9,
        Rank::Four => 10,
        Rank::Trey => 11,
        Rank::Deuce => 12,
    }
}
#[inline]
pub fn suit_ix(s: &Suit) -> u8 {
    match s {
        Suit::Spade => 0,
        Suit::Heart => 1,
        Suit::Diamond => 2,
        Suit::Club => 3,
    }
}
#[inline]
pub fn cid_of(c: &Card) -> Cid {
    rank_ix(c.rank()) * 4 + suit_ix(c.suit())
}

pub fn cname(c: Cid) -> String {
    let mut s = String::with_capacity(2);
    s.push(RANK_CH[(c / 4) as usize]);
    s.push(SUIT_CH[(c % 4) as usize]);
    s
}
pub fn cnames(cs: &[Cid]) -> String {
    cs.iter().map(|c| cname(*c)).collect::<Vec<_>>().join("")
}

/// Unordered combo as (lo id, hi id), lo < hi (for distinct cards).
#[inline]
pub fn norm_pair(a: Cid, b: Cid) -> (Cid, Cid) {
    if a <= b {
        (a, b)
    } else {
        (b, a)
    }
}
#[inline]
pub fn e_pair(a: Cid, b: Cid) -> CardPair {
    CardPair::new(e_card(a), e_card(b))
}
/// ids of an espada pair in model order (lo, hi), whatever order espada stores them in.
#[inline]
pub fn pair_ids(p: &CardPair) -> (Cid, Cid) {
    norm_pair(cid_of(&p[0]), cid_of(&p[1]))
}
pub fn pname(p: (Cid, Cid)) -> String {
    format!("{}{}", cname(p.0), cname(p.1))
}

/// All 1326 combos in model order.
pub fn all_combos() -> Vec<(Cid, Cid)> {
    let mut v = Vec::with_capacity(1326);
    for a in 0..52u8 {
        for b in (a + 1)..52u8 {
            v.push((a, b));
        }
    }
    v
}

/// The 49 unseen cards for a flop, in deck order (ace to deuce; s,h,d,c within a rank) = id order.
pub fn deck49(flop: &[Cid; 3]) -> Vec<Cid> {
    (0..52u8).filter(|c| !flop.contains(c)).collect()
}

pub fn e_board(flop: &[Cid; 3]) -> [Option<Card>; 5] {
    [
        Some(e_card(flop[0])),
        Some(e_card(flop[1])),
        Some(e_card(flop[2])),
        None,
        None,
    ]
}

/// Positions (t, r), t < r <= 48, in lexicographic order, plus the terminal (48, 49).
pub fn all_positions() -> Vec<(u8, u8)> {
    let mut v = Vec::with_capacity(1177);
    for t in 0..48u8 {
        for r in (t + 1)..49u8 {
            v.push((t, r));
        }
    }
    v.push((48, 49));
    v
}

// ---------------------------------------------------------------------------------------------
// interrupted formatting (call histories of Display)

/// A `fmt::Write` sink that fails once more than `left` bytes have been offered.
pub struct ShortSink {
    pub left: usize,
}
impl std::fmt::Write for ShortSink {
    fn write_str(&mut self, s: &str) -> std::fmt::Result {
        if s.len() > self.left {
            self.left = 0;
            Err(std::fmt::Error)
        } else {
            self.left -= s.len();
            Ok(())
        }
    }
}

/// Formats `x` into a sink of `cap` bytes and gives back whether the write failed.  Used as a
/// step of call histories: a formatting call that was cut short (a fixed-size buffer, a closed
/// pipe) must not influence what the next formatting call on the thread prints.
pub fn format_cut_short<T: std::fmt::Display>(x: &T, cap: usize) -> bool {
    use std::fmt::Write;
    write!(ShortSink { left: cap }, "{}", x).is_err()
}

/// A small range unlike anything the generators build (weight 0.8125 on a pocket pair, a suited
/// run and two single combos), formatted into short sinks by the histories of C06 and C17.
pub fn odd_range() -> espada::hand_range::HandRange {
    let mut v: Vec<(CardPair, f32)> = vec![];
    for (a, b) in [(0u8, 1u8), (0, 2), (0, 3), (1, 2), (1, 3), (2, 3), (4, 8), (5, 9), (6, 10), (7, 11), (8, 12), (9, 13), (10, 14), (11, 15), (20, 50), (21, 51)] {
        v.push((e_pair(a, b), 0.8125));
    }
    v.into_iter().collect()
}
