//! C17 — range text is canonical: equal ranges print identically and runs are merged.

use crate::cards::*;
use crate::notation::*;
use crate::props::c06::{range_strategy, row_pattern, row_sweep, RangeCase};
use crate::runner::*;
use crate::vensure;
use espada::hand_range::{CardPair, HandRange};
use proptest::prelude::*;
use serde::{Deserialize, Serialize};
use serde_json::{json, Value};

#[derive(Clone, Debug, Serialize, Deserialize)]
pub struct Case {
    pub range: RangeCase,
    pub seed: u64,
}

fn shuffle<T>(v: &mut [T], seed: u64) {
    let mut x = mix64(seed);
    for i in (1..v.len()).rev() {
        x = mix64(x);
        v.swap(i, (x % (i as u64 + 1)) as usize);
    }
}

fn lit(w: f32) -> Option<String> {
    if w == 1.0 {
        None
    } else {
        Some(format!("{}", w))
    }
}

/// a non-canonical text with the same contents: runs split into single rank pairs, some rank
/// pairs split into their combos, tokens permuted, one superseded token first
pub fn noncanonical_text(m: &RangeMap, seed: u64) -> String {
    let (complete, left) = split(m);
    let mut toks: Vec<WTok> = vec![];
    let mut x = mix64(seed ^ 0xabcdef);
    let mut first: Option<WTok> = None;
    for (cell, w) in &complete {
        x = mix64(x);
        if first.is_none() {
            // superseded: same cell, other weight, goes to the very front
            let t = match cell.kind {
                Kind::Pocket => Tok::Pocket(cell.hi),
                Kind::Suited => Tok::Pair(true, cell.hi, cell.lo),
                Kind::Offsuit => Tok::Pair(false, cell.hi, cell.lo),
            };
            first = Some(WTok { tok: t, weight: Some(if *w == 0.125 { "0.5".into() } else { "0.125".into() }) });
        }
        if x % 4 == 0 {
            for p in cell.combos() {
                // either card order
                let (a, b) = if x >> 9 & 1 == 1 { (p.1, p.0) } else { p };
                toks.push(WTok { tok: Tok::Combo(a, b), weight: lit(*w) });
            }
        } else {
            let t = match cell.kind {
                Kind::Pocket => Tok::Pocket(cell.hi),
                // either rank order
                Kind::Suited => {
                    if x >> 10 & 1 == 1 {
                        Tok::Pair(true, cell.lo, cell.hi)
                    } else {
                        Tok::Pair(true, cell.hi, cell.lo)
                    }
                }
                Kind::Offsuit => {
                    if x >> 10 & 1 == 1 {
                        Tok::Pair(false, cell.lo, cell.hi)
                    } else {
                        Tok::Pair(false, cell.hi, cell.lo)
                    }
                }
            };
            toks.push(WTok { tok: t, weight: lit(*w) });
        }
    }
    for (p, w) in &left {
        x = mix64(x);
        let (a, b) = if x & 1 == 1 { (p.1, p.0) } else { *p };
        toks.push(WTok { tok: Tok::Combo(a, b), weight: lit(*w) });
        if first.is_none() {
            first = Some(WTok { tok: Tok::Combo(p.0, p.1), weight: Some(if *w == 0.125 { "0.5".into() } else { "0.125".into() }) });
        }
    }
    shuffle(&mut toks, seed ^ 0x77);
    let mut all: Vec<String> = vec![];
    if let Some(f) = first {
        all.push(f.text());
    }
    all.extend(toks.iter().map(|t| t.text()));
    all.join(if seed & 1 == 1 { ", " } else { "," })
}

pub fn check(c: &Case) -> CheckResult {
    vensure!(c.range.valid(), "bad-case", "range outside the domain");
    let m = c.range.map();
    let entries: Vec<((u8, u8), f32)> = m.iter().map(|(k, v)| (*k, *v)).collect();
    // history 0: sorted insertion
    let base: HandRange = entries.iter().map(|(k, w)| (e_pair(k.0, k.1), *w)).collect();
    let text = base.to_string();
    let sibling: HandRange = {
        let ws: Vec<f32> = entries.iter().map(|e| e.1).collect();
        entries.iter().enumerate().map(|(i, (k, _))| (e_pair(k.0, k.1), ws[(i + 1) % ws.len().max(1)])).collect()
    };
    let mut histories = 1u32;
    let mut classes = 0u64;
    let cmp = |name: &str, other: &HandRange| -> Result<(), Fail> {
        if diff_maps(&m, &espada_map(other)).is_some() {
            return Ok(()); // not the same contents: premise of the property not met (parser's business, C05)
        }
        if *other != base {
            return Err(Fail::new(format!("equal-contents-unequal:{}", name), format!("range built by history '{}' has identical combos and weights but compares unequal", name)));
        }
        // a sibling range - the same combos, the same weights dealt round by one place - is
        // formatted just before some of the histories (a cache keyed by a digest of the contents
        // must tell the two apart)
        if name.len() % 3 != 0 {
            std::hint::black_box(sibling.to_string().len());
        }
        // a formatting call cut short by its sink precedes some of the histories
        if name.len() % 2 == 0 {
            format_cut_short(&odd_range(), (c.seed >> 4) as usize % 40);
            format_cut_short(other, (c.seed >> 12) as usize % 24);
        }
        let t2 = other.to_string();
        if t2 != text {
            return Err(Fail::new(
                format!("text-depends-on-history:{}", name),
                format!("equal ranges print differently: sorted insertion gives {:?}, history '{}' gives {:?}", text.chars().take(300).collect::<String>(), name, t2.chars().take(300).collect::<String>()),
            ));
        }
        Ok(())
    };
    // history 1: permuted insertion order
    let mut e1 = entries.clone();
    shuffle(&mut e1, c.seed);
    let h1: HandRange = e1.iter().map(|(k, w)| (e_pair(k.1, k.0), *w)).collect();
    cmp("permuted insertion, cards swapped", &h1)?;
    histories += 1;
    // history 2: wrong weights first, overwritten later; duplicates
    let mut e2: Vec<((u8, u8), f32)> = entries.iter().map(|(k, _)| (*k, 0.0625f32)).collect();
    shuffle(&mut e2, c.seed ^ 1);
    let mut tail = entries.clone();
    shuffle(&mut tail, c.seed ^ 2);
    e2.extend(tail.iter().cloned());
    e2.extend(tail.iter().take(5).cloned());
    let h2: HandRange = e2.iter().map(|(k, w)| (e_pair(k.0, k.1), *w)).collect();
    cmp("overwritten wrong weights + duplicates", &h2)?;
    histories += 1;
    classes |= 1;
    // history 3: many extra inserts (capacity growth), then rebuilt through clone of contents in reverse
    let mut e3: Vec<((u8, u8), f32)> = entries.iter().rev().cloned().collect();
    let extra: Vec<((u8, u8), f32)> = entries.iter().cycle().take(entries.len() * 3).cloned().collect();
    e3.extend(extra);
    let h3: HandRange = e3.iter().map(|(k, w)| (e_pair(k.0, k.1), *w)).collect();
    cmp("reverse insertion with many repeated inserts", &h3)?;
    histories += 1;
    // history 4: parse espada's own output
    if let Ok(h4) = text.parse::<HandRange>() {
        cmp("parse of own text", &h4)?;
        histories += 1;
        classes |= 2;
    }
    // history 5: parse a non-canonical text of the same contents
    let nc = noncanonical_text(&m, c.seed);
    if let Ok(h5) = nc.parse::<HandRange>() {
        if diff_maps(&m, &espada_map(&h5)).is_none() {
            cmp("parse of a non-canonical text", &h5)?;
            histories += 1;
            classes |= 4;
        }
    }
    // history 6: collected from bare CardPairs when all weights are 1
    if m.values().all(|w| *w == 1.0) {
        let mut e6 = entries.clone();
        shuffle(&mut e6, c.seed ^ 6);
        let h6: HandRange = e6.iter().map(|(k, _)| e_pair(k.0, k.1)).collect::<Vec<CardPair>>().into_iter().collect();
        cmp("collected from bare pairs", &h6)?;
        histories += 1;
        classes |= 8;
    }

    // structure of the text
    let (complete, left) = split(&m);
    let runs = maximal_runs(&complete);
    let short = |s: &str| s.chars().take(300).collect::<String>();
    let mut toks: Vec<WTok> = vec![];
    if !text.is_empty() {
        for part in text.split(',') {
            match parse_token(part) {
                Some(t) => toks.push(t),
                None => return Err(Fail::new("text-token-unreadable", format!("token {:?} of the range text {:?} is not a well-formed token", part, short(&text)))),
            }
        }
    }
    let nrp = toks.iter().take_while(|t| !matches!(t.tok, Tok::Combo(..))).count();
    vensure!(
        toks[nrp..].iter().all(|t| matches!(t.tok, Tok::Combo(..))),
        "text-order-leftovers",
        "a rank-pair token follows a single-combo token in {:?}",
        short(&text)
    );
    // rank-pair tokens <-> maximal runs, one to one, in canonical row order
    for (i, run) in runs.iter().enumerate() {
        let Some(t) = toks.get(i).filter(|_| i < nrp) else {
            return Err(Fail::new("text-run-missing", format!("{} maximal runs but only {} rank-pair tokens in {:?}; first unmatched run {}..{} (weight {})", runs.len(), nrp, short(&text), run.cells[0].name(), run.cells.last().unwrap().name(), run.weight)));
        };
        let cells = t.tok.cells();
        if cells != run.cells {
            let sig = if cells.len() < run.cells.len() && run.cells.starts_with(&cells) { "text-run-not-merged" } else { "text-run-mismatch" };
            return Err(Fail::new(
                sig,
                format!(
                    "rank-pair token #{} {:?} of {:?} covers {}..{} but the maximal run at that place is {}..{} (weight {}): runs must be written as one token each, in row order",
                    i,
                    t.text(),
                    short(&text),
                    cells.first().map(|c| c.name()).unwrap_or_default(),
                    cells.last().map(|c| c.name()).unwrap_or_default(),
                    run.cells[0].name(),
                    run.cells.last().unwrap().name(),
                    run.weight
                ),
            ));
        }
        vensure!(t.value().to_bits() == run.weight.to_bits(), "text-run-weight", "token {:?} carries weight {}, the run has {}", t.text(), t.value(), run.weight);
    }
    vensure!(nrp == runs.len(), "text-run-extra", "{} rank-pair tokens for {} maximal runs in {:?}", nrp, runs.len(), short(&text));
    // leftovers: set equality (duplicates are tolerated, a repository test pins them)
    let mut seen = RangeMap::new();
    for t in &toks[nrp..] {
        if let Tok::Combo(a, b) = t.tok {
            seen.insert(norm_pair(a, b), t.value());
        }
    }
    if let Some(d) = diff_maps(&left, &seen) {
        return Err(Fail::new("text-leftovers", format!("single-combo tokens of {:?} differ from the leftover combos: {}", short(&text), d)));
    }
    if runs.iter().any(|r| r.cells.len() >= 2) {
        classes |= 16;
    }
    if !left.is_empty() {
        classes |= 32;
    }
    let nontrivial = histories >= 3 && runs.iter().any(|r| r.cells.len() >= 2);
    Ok(Outcome::new(nontrivial, fp_of(&text), classes))
}
pub const CLASSES: &[&str] = &["overwrite_history", "parse_of_own_text", "parse_of_noncanonical_text", "collect_from_bare_pairs", "run_of_two_or_more", "has_leftovers", "history_around_256_calls", "history_around_65536_calls"];

// ---------------------------------------------------------------------------------------------
// long formatting histories on one thread

/// Range Y (a row pattern, in half of the cases with one combo of a complete cell removed) is
/// formatted first; then X (the same row with that combo back resp. one cell changed), then
/// `fillers` ranges living in another row, then Y again `probes` times.  Every probe must give the
/// text of the first call - whatever was formatted 255, 256, 65,535 or 65,536 calls earlier on the
/// thread.  With `parse_back` (C06) the first and last probe texts must also parse back to Y.
#[derive(Clone, Debug, Serialize, Deserialize)]
pub struct FormatHistory {
    pub row: usize,
    pub code: u64,
    pub cell: u8,
    pub fillers: u32,
    pub probes: u32,
}

pub fn check_format_history(c: &FormatHistory, parse_back: bool) -> CheckResult {
    let rws = rows();
    vensure!(c.row < rws.len() && c.fillers <= 200_000 && c.probes <= 200, "bad-case", "history outside the domain");
    let len = rws[c.row].len() as u32;
    let code = c.code % 3u64.pow(len);
    let k = c.cell as u32 % len;
    let digit = code / 3u64.pow(k) % 3;
    let (mx, my) = if (c.cell >> 4) % 2 == 0 {
        // X holds cell k complete, Y is X without one combo of that cell
        let code_x = if digit == 0 { code + 3u64.pow(k) } else { code };
        let mx = row_pattern(c.row, code_x, 1.0, 0.5);
        let mut my = mx.clone();
        let combos = rws[c.row][k as usize].combos();
        my.remove(&combos[(c.cell >> 5) as usize % combos.len()]);
        (mx, my)
    } else {
        // X: one cell of the row takes the next state (absent -> 1.0 -> 0.5 -> absent)
        let code_x = code - digit * 3u64.pow(k) + (digit + 1) % 3 * 3u64.pow(k);
        (row_pattern(c.row, code_x, 1.0, 0.5), row_pattern(c.row, code, 1.0, 0.5))
    };
    let ry = to_espada(&my);
    let rx = to_espada(&mx);
    let other = (c.row + 3 + c.cell as usize % 5) % rws.len();
    let fl: Vec<HandRange> = (0..4u64).map(|j| to_espada(&row_pattern(other, (c.code / 7 + j * 5) % 3u64.pow(rws[other].len() as u32), 0.25, 1.0))).collect();
    let t0 = ry.to_string();
    std::hint::black_box(rx.to_string().len());
    for i in 0..c.fillers {
        std::hint::black_box(fl[i as usize % fl.len()].to_string().len());
    }
    let short = |s: &str| s.chars().take(200).collect::<String>();
    for p in 0..c.probes {
        let t = ry.to_string();
        if !parse_back && t != t0 {
            return Err(Fail::new("history:text-depends-on-earlier-calls", format!("a range prints as {:?} at first and as {:?} after a range differing in one combo or cell and {} ranges of another row (+ {} repeats of itself) were formatted on the thread", short(&t0), short(&t), c.fillers, p)));
        }
        if parse_back && (t != t0 || p == 0) {
            // C06 only asks for the round trip: a text that differs from the first one is parsed back
            match t.parse::<HandRange>() {
                Ok(back) if diff_maps(&my, &espada_map(&back)).is_none() => {}
                _ => return Err(Fail::new("history:range-roundtrip", format!("after {} formatting calls on the thread the text {:?} does not parse back to the range (its first text was {:?})", c.fillers + p + 2, short(&t), short(&t0)))),
            }
        }
    }
    Ok(Outcome::new(true, fp_of(&format!("{:?}", c)), if c.fillers >= 60_000 { 128 } else { 64 }))
}

pub fn format_history_strategy() -> impl Strategy<Value = FormatHistory> {
    (0usize..25, any::<u64>(), any::<u8>(), prop_oneof![3 => Just(230u32), 1 => Just(65_500u32)], 0u32..16).prop_map(|(row, code, cell, base, off)| FormatHistory { row, code, cell, fillers: base + off, probes: 48 })
}

pub fn strategy(max_partial: usize) -> impl Strategy<Value = Case> {
    (range_strategy(max_partial), any::<u64>()).prop_map(|(range, seed)| Case { range, seed })
}

pub fn run(ctx: &mut Ctx) {
    ctx.rule = "target ranges from C06's row-pattern generator (and every pattern of every row with <= 7 cells, thorough: <= 10 cells; C06 sweeps every row for the round trip); for each target 5-7 construction histories are replayed: sorted insertion, permuted insertion with swapped card order, wrong weights overwritten later plus duplicates, reverse insertion with many repeated inserts, parse of espada's own text, parse of the model's non-canonical text of the same contents (runs split into single rank pairs, rank pairs split into combos in either card order, tokens shuffled, a superseded token first), collection from bare pairs when all weights are 1. Oracle: all histories give == ranges with byte-identical text; the text, read by the model's own tokenizer, has its rank-pair tokens in one-to-one correspondence, in row order (pockets aces down; per high card suited then offsuit), with the model's maximal runs (same cells, same weight bits), followed by single-combo tokens whose set equals the model's leftovers. Stream long_format_histories: a row pattern is formatted, then the same row with one cell changed, then 230-245 or 65,500-65,515 ranges of another row, then the first range again 48 times - each time the first text must come out (wrap points of 8- and 16-bit call counters). Non-trivial = >= 3 histories and >= 1 run of length >= 2; distinct by text.".into();
    ctx.assumptions = vec![
        "duplicated leftover tokens for partial pocket pairs are pinned by a repository test and not forbidden by the statement: only the set and placement of leftover tokens is checked".into(),
        "a history whose parse does not reproduce the target contents is skipped here (that is C05's subject)".into(),
    ];
    let cases = ctx.tier.pick(8_000, 100_000);
    ctx.run_random_brief(StreamCfg::new("construction_histories", CLASSES, cases).shrink(300), || strategy(6), check, |c| json!({"combos": c.range.combos.len(), "text": to_espada(&c.range.map()).to_string().chars().take(160).collect::<String>()}));
    for (c, d) in [("parse_of_noncanonical_text", 2), ("collect_from_bare_pairs", 30), ("run_of_two_or_more", 3), ("has_leftovers", 4)] {
        ctx.require_class("construction_histories", c, cases / d);
    }
    let sweep = row_sweep(ctx.tier.pick(7, 10));
    let n = sweep.len() as u64;
    ctx.run_enum_brief(
        StreamCfg::new("all_row_patterns", CLASSES, n),
        n,
        true,
        |i| {
            let (row, code) = sweep[i as usize];
            Case { range: RangeCase::from_map(&row_pattern(row, code, 1.0, 0.5)), seed: i }
        },
        check,
        |c| json!(to_espada(&c.range.map()).to_string()),
    );
    let cases = ctx.tier.pick(48, 800);
    ctx.run_random_brief(StreamCfg::new("long_format_histories", CLASSES, cases).shrink(20), format_history_strategy, |c| check_format_history(c, false), |c| json!({"row": c.row, "fillers": c.fillers, "probes": c.probes}));
    if ctx.tier == Tier::Thorough && !ctx.failed() {
        crate::fuzzrun::campaign(ctx, "fz_range", 1000, 16, 400);
    }
}

pub fn replay(stream: &str, path: &str, case: &Value) -> i32 {
    if stream == "long_format_histories" {
        return replay_case::<FormatHistory>("C17", path, case, |c| check_format_history(c, false));
    }
    replay_case::<Case>("C17", path, case, check)
}
