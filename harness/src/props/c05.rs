//! C05 — range notation parses to its standard poker meaning.

use crate::cards::*;
use crate::notation::*;
use crate::runner::*;
use crate::vensure;
use espada::hand_range::{HandRange, HandRangeToken};
use proptest::prelude::*;
use serde::{Deserialize, Serialize};
use serde_json::{json, Value};
use std::collections::BTreeMap;

pub fn check_token(wt: &WTok) -> CheckResult {
    vensure!(wt.tok.well_formed(), "bad-case", "token not well-formed");
    let text = wt.text();
    let want_w = wt.value();
    vensure!((0.0..=1.0).contains(&want_w), "bad-case", "weight literal outside [0,1]");
    let Ok(tok) = text.parse::<HandRangeToken>() else {
        return Err(Fail::new(format!("token-rejected:{}", shape_of(&wt.tok)), format!("well-formed token {:?} is rejected by the token parser", text)));
    };
    let got: Vec<((u8, u8), f32)> = tok.into_iter().map(|(p, w)| (pair_ids(&p), w)).collect();
    let want = wt.tok.combos();
    let mut gm: BTreeMap<(u8, u8), f32> = BTreeMap::new();
    for (p, w) in &got {
        vensure!(gm.insert(*p, *w).is_none(), format!("token-duplicate-combo:{}", shape_of(&wt.tok)), "token {:?} expands to combo {} more than once", text, pname(*p));
    }
    let wm: RangeMap = want.iter().map(|p| (*p, want_w)).collect();
    if let Some(d) = diff_maps(&wm, &gm) {
        return Err(Fail::new(format!("token-meaning:{}", shape_of(&wt.tok)), format!("token {:?} should denote {} combos at weight {}: {} (espada expands it to {} combos)", text, want.len(), want_w, d, got.len())));
    }
    // the same text as a one-token range
    let Ok(r) = text.parse::<HandRange>() else {
        return Err(Fail::new("range-rejected", format!("range text {:?} is rejected", text)));
    };
    if let Some(d) = diff_maps(&wm, &espada_map(&r)) {
        return Err(Fail::new(format!("range-meaning:{}", shape_of(&wt.tok)), format!("range {:?}: {}", text, d)));
    }
    vensure!(r.card_pairs().len() == wm.len(), "range-holds-combo-twice", "range {:?} holds {} entries for {} distinct combos", text, r.card_pairs().len(), wm.len());
    Ok(Outcome::new(true, hash_str(&text), 1 << shape_ix(&wt.tok) | if wt.weight.is_some() { 1 << 7 } else { 0 }))
}

pub fn shape_ix(t: &Tok) -> u32 {
    match t {
        Tok::Pocket(_) => 0,
        Tok::PocketPlus(_) => 1,
        Tok::PocketSpan(..) => 2,
        Tok::Pair(..) => 3,
        Tok::PairPlus(..) => 4,
        Tok::PairSpan(..) => 5,
        Tok::Combo(..) => 6,
    }
}
pub fn shape_of(t: &Tok) -> &'static str {
    TOKEN_CLASSES[shape_ix(t) as usize]
}
pub const TOKEN_CLASSES: &[&str] = &["pocket", "pocket_plus", "pocket_span", "rank_pair", "rank_pair_plus", "rank_pair_span", "card_pair", "with_weight"];

#[derive(Clone, Debug, Serialize, Deserialize)]
pub struct ListCase {
    pub toks: Vec<WTok>,
    /// spacing choices: bit0 of spaces[i] = space before token i, bit1 = space after it
    pub spaces: Vec<u8>,
}

pub fn list_text(c: &ListCase) -> String {
    let mut s = String::new();
    for (i, t) in c.toks.iter().enumerate() {
        let sp = c.spaces.get(i).copied().unwrap_or(0);
        if i > 0 {
            s.push(',');
        }
        if sp & 1 == 1 {
            s.push(' ');
        }
        s.push_str(&t.text());
        if sp & 2 == 2 {
            s.push(' ');
        }
    }
    if c.toks.is_empty() {
        for _ in 0..c.spaces.len() {
            s.push(' ');
        }
    }
    s
}

pub fn check_list(c: &ListCase) -> CheckResult {
    vensure!(c.toks.iter().all(|t| t.tok.well_formed() && (0.0..=1.0).contains(&t.value())), "bad-case", "ill-formed token in list");
    let text = list_text(c);
    let Ok(r) = text.parse::<HandRange>() else {
        return Err(Fail::new("range-rejected", format!("range text {:?} is rejected", text)));
    };
    let want = model_of_tokens(&c.toks);
    let got = espada_map(&r);
    vensure!(r.card_pairs().len() == got.len(), "range-holds-combo-twice", "range {:?} holds {} entries for {} distinct combos (a combo is stored under two different keys)", text, r.card_pairs().len(), got.len());
    if let Some(d) = diff_maps(&want, &got) {
        return Err(Fail::new("list-meaning", format!("range {:?} should hold {} combos (later token wins on overlap, spaces ignored): {} (espada holds {} combos)", text, want.len(), d, got.len())));
    }
    // overlap with different weights?
    let mut seen: BTreeMap<(u8, u8), u32> = BTreeMap::new();
    let mut overlap_diff = false;
    let mut overlap = false;
    for t in &c.toks {
        let w = t.value().to_bits();
        for p in t.tok.combos() {
            if let Some(prev) = seen.insert(p, w) {
                overlap = true;
                if prev != w {
                    overlap_diff = true;
                }
            }
        }
    }
    let mut cls = 0u64;
    if overlap_diff {
        cls |= 1;
    }
    if overlap {
        cls |= 2;
    }
    if text.contains(' ') {
        cls |= 4;
    }
    if c.toks.is_empty() {
        cls |= 8;
    }
    if c.toks.len() >= 6 {
        cls |= 16;
    }
    Ok(Outcome::new(overlap_diff, hash_str(&text), cls))
}
pub const LIST_CLASSES: &[&str] = &["overlap_with_different_weights", "overlap", "contains_spaces", "empty_list", "six_plus_tokens"];

// the last two lie a hair above / below the midpoint of two neighbouring f32 values: a parser that
// goes through f64 rounds them to the midpoint first and then to the wrong neighbour
pub const LITERALS_QUICK: &[Option<&str>] = &[None, Some("1"), Some("0"), Some("0.5"), Some("1.00"), Some("0.250000000000000000000000000000000000000000000000000000000000"), Some("0.5000000298023224"), Some("0.50000008940696716")];
pub const LITERALS_THOROUGH: &[Option<&str>] = &[
    None,
    Some("1"),
    Some("0"),
    Some("0.5"),
    Some("1.0"),
    Some("0.25"),
    Some("0.125"),
    Some("0.333"),
    Some("0.999999"),
    Some("0.000001"),
    Some("0.30000001192092896"),
    Some("1.000"),
    Some("0.0"),
    Some("0.7"),
    Some("0.100000001490116119384765625"),
    Some("0.250000000000000000000000000000000000000000000000000000000000"),
    Some("1.000000000000000000000000000000000000000000000000000000000000"),
    Some("0.5000000298023224"),
    Some("0.50000008940696716"),
];

pub fn weight_literal() -> impl Strategy<Value = Option<String>> {
    prop_oneof![
        3 => Just(None),
        1 => Just(Some("1".to_string())),
        1 => Just(Some("0".to_string())),
        2 => Just(Some("0.5".to_string())),
        1 => Just(Some("1.0".to_string())),
        3 => "0\\.[0-9]{1,12}".prop_map(Some),
        1 => "0\\.[0-9]{13,70}".prop_map(Some),
        1 => "1\\.0{7,70}".prop_map(Some),
        1 => "1\\.0{1,6}".prop_map(Some),
        1 => midpoint_literal(),
    ]
}

/// The exact decimal expansion of the midpoint of two neighbouring f32 values in [2^-8, 1), moved
/// a hair up (one more digit) or down (last digit decremented, nines appended): the correctly
/// rounded f32 is the upper resp. lower neighbour, whereas rounding to f64 first lands on the
/// midpoint itself and the second rounding goes to the even neighbour - wrong in half the cases.
pub fn midpoint_literal() -> impl Strategy<Value = Option<String>> {
    (0x3b80_0000u32..0x3f7f_ffffu32, any::<bool>()).prop_map(|(bits, above)| {
        let a = f32::from_bits(bits);
        let b = f32::from_bits(bits + 1);
        let m = (a as f64 + b as f64) / 2.0;
        let mut s = format!("{:.45}", m);
        if above {
            s.push('1');
        } else {
            let t = s.trim_end_matches('0').to_string();
            let (head, last) = t.split_at(t.len() - 1);
            let d = last.as_bytes()[0] - b'0';
            s = format!("{}{}9999", head, d - 1);
        }
        Some(s)
    })
}

/// token over a small rank palette so that tokens of one list overlap often
pub fn token_from(palette: &[u8], shape: u8, a: u8, b: u8, c: u8, s1: u8, s2: u8, suited: bool) -> Tok {
    let n = palette.len();
    let pick = |i: u8| palette[i as usize % n];
    let mut three = vec![pick(a), pick(b), pick(c)];
    three.sort_unstable();
    three.dedup();
    match shape % 7 {
        0 => Tok::Pocket(pick(a)),
        1 => Tok::PocketPlus(pick(a)),
        2 if three.len() >= 2 => Tok::PocketSpan(three[0], three[three.len() - 1]),
        3 if pick(a) != pick(b) => Tok::Pair(suited, pick(a), pick(b)),
        4 if three.len() >= 2 => Tok::PairPlus(suited, three[0], three[three.len() - 1]),
        5 if three.len() >= 3 => Tok::PairSpan(suited, three[0], three[1], three[2]),
        6 => {
            let x = pick(a) * 4 + s1 % 4;
            let y = pick(b) * 4 + s2 % 4;
            if x != y {
                Tok::Combo(x, y)
            } else {
                Tok::Combo(x, (y + 1) % 52)
            }
        }
        _ => Tok::Pocket(pick(b)),
    }
}

/// tokens that together cover all 1326 combos ("100% of hands", the usual starting point of a
/// range that is then carved with overriding tokens): 22+ and X2s+/X2o+ for every high card, or
/// all 169 single rank pairs
pub fn full_cover(fine: bool) -> Vec<Tok> {
    let mut v = vec![];
    if fine {
        for r in 0..13 {
            v.push(Tok::Pocket(r));
        }
        for h in 0..12u8 {
            for k in (h + 1)..13 {
                v.push(Tok::Pair(true, h, k));
                v.push(Tok::Pair(false, k, h));
            }
        }
    } else {
        v.push(Tok::PocketPlus(12));
        for h in 0..12u8 {
            v.push(Tok::PairPlus(true, h, 12));
            v.push(Tok::PairPlus(false, h, 12));
        }
    }
    v
}

/// a list that first covers every combo (shuffled cover tokens with one weight) and then
/// overrides parts of it
pub fn covered_list_strategy() -> impl Strategy<Value = ListCase> {
    (any::<bool>(), weight_literal(), any::<u64>(), list_strategy(8), proptest::bool::weighted(0.2)).prop_map(|(fine, w, seed, rest, fine2)| {
        let mut cover = full_cover(fine && fine2);
        let mut x = crate::runner::mix64(seed);
        for i in (1..cover.len()).rev() {
            x = crate::runner::mix64(x);
            cover.swap(i, (x % (i as u64 + 1)) as usize);
        }
        let mut toks: Vec<WTok> = cover.into_iter().map(|t| WTok { tok: t, weight: w.clone() }).collect();
        let mut spaces = vec![0u8; toks.len()];
        toks.extend(rest.toks);
        spaces.extend(rest.spaces);
        ListCase { toks, spaces }
    })
}

pub fn list_strategy(max: usize) -> impl Strategy<Value = ListCase> {
    (
        proptest::sample::subsequence((0..13u8).collect::<Vec<_>>(), 3..=6),
        proptest::collection::vec(((0u8..7, any::<u8>(), any::<u8>(), any::<u8>(), any::<u8>(), any::<u8>(), any::<bool>()), weight_literal(), 0u8..4), 0..=max),
        0usize..4,
    )
        .prop_map(|(palette, items, pad)| {
            let toks: Vec<WTok> = items.iter().map(|((sh, a, b, c, s1, s2, su), w, _)| WTok { tok: token_from(&palette, *sh, *a, *b, *c, *s1, *s2, *su), weight: w.clone() }).collect();
            let spaces: Vec<u8> = if toks.is_empty() { vec![0; pad] } else { items.iter().map(|x| x.2).collect() };
            ListCase { toks, spaces }
        })
}

pub fn run(ctx: &mut Ctx) {
    ctx.rule = "(1) exhaustive: all 3,796 well-formed tokens (13 pockets, 13 XX+, 78 pocket spans, 312 rank pairs in either rank order, 156 XYs+/XYo+, 572 kicker spans, 2,652 ordered card pairs) x weight literals (quick 8, thorough 19, incl. 60-digit literals and two literals a hair off the midpoint of neighbouring f32 values, which a parser going through f64 rounds to the wrong neighbour) - the token must parse and expand to exactly the model's combo set, each once, at the literal's value, also as a one-token range. (2) proptest token lists of 0-12 (thorough 0-40) tokens, plus long lists of up to 320 tokens and lists that first cover all 1326 combos (22+,X2s+,X2o+ for every high card, or all 169 rank pairs, shuffled) and then override parts of them, over a 3-6 rank palette (frequent overlaps), generated weight literals 0.d{1,12} / 0.d{13,70} / 1.0.. / exact f32 midpoints moved a hair up or down (45-50 digits), optional spaces around commas and at the ends, the empty and all-space strings; the parsed range must equal the model map (sequential insert, later wins), weights bit-identical. (3) long parse histories on one thread: forty one-token ranges, then d-40 parses of a range sharing no combo with them, then forty ranges containing those combos again, d in {255,256,257,65534,65535,65536,65537}. Non-trivial: tokens all; lists with >= 1 combo covered by two tokens of different weight; distinct by text.".into();
    ctx.assumptions = vec![
        "the literal's value is std's str::parse::<f32>() of the literal".into(),
        "spaces only around commas and at the ends; weights only from literals whose value is in [0,1]".into(),
    ];
    let toks = all_tokens();
    let lits = ctx.tier.pick(LITERALS_QUICK, LITERALS_THOROUGH);
    let n = (toks.len() * lits.len()) as u64;
    ctx.run_enum_brief(
        StreamCfg::new("all_tokens", TOKEN_CLASSES, n),
        n,
        true,
        |i| WTok { tok: toks[i as usize / lits.len()].clone(), weight: lits[i as usize % lits.len()].map(|s| s.to_string()) },
        check_token,
        |t| json!(t.text()),
    );
    let cases = ctx.tier.pick(12_000, 150_000);
    let max = ctx.tier.pick(12, 40);
    ctx.run_random_brief(StreamCfg::new("token_lists", LIST_CLASSES, cases).shrink(400), move || list_strategy(max), check_list, |c| json!(list_text(c)));
    let cases_long = ctx.tier.pick(160, 3_000);
    ctx.run_random_brief(StreamCfg::new("long_token_lists", LIST_CLASSES, cases_long).shrink(200), move || list_strategy(320), check_list, |c| json!(format!("{} tokens: {}...", c.toks.len(), list_text(c).chars().take(60).collect::<String>())));
    let cases_cov = ctx.tier.pick(400, 8_000);
    ctx.run_random_brief(StreamCfg::new("full_cover_then_overrides", LIST_CLASSES, cases_cov).shrink(200), covered_list_strategy, check_list, |c| json!(format!("{} tokens: {}...", c.toks.len(), list_text(c).chars().take(70).collect::<String>())));
    ctx.require_class("full_cover_then_overrides", "overlap_with_different_weights", cases_cov / 3);
    ctx.require_class("token_lists", "overlap_with_different_weights", cases / 4);
    ctx.require_class("token_lists", "contains_spaces", cases / 4);
    ctx.require_class("token_lists", "empty_list", cases / 100);
    // long parse histories on one thread (wrap points of 8- and 16-bit call counters); the
    // replicas at reduced scale keep the short distances only
    let ds: Vec<u32> = if env_scale() >= 1.0 { vec![255, 256, 257, 65_534, 65_535, 65_536, 65_537] } else { vec![255, 256, 257] };
    let n = ds.len() as u64;
    ctx.run_enum_brief(StreamCfg::new("long_parse_histories", HISTORY_CLASSES, n), n, true, |i| ds[i as usize], check_parse_history, |d| json!({"related_parses_apart": d}));
    ctx.extra.insert("exhaustive_over".into(), json!("all 3,796 well-formed tokens x the listed weight literals"));
    if ctx.tier == Tier::Thorough && !ctx.failed() {
        crate::fuzzrun::campaign(ctx, "fz_notation", 3000, 16, 256);
    }
}

// ---------------------------------------------------------------------------------------------
// long parse histories on one thread

/// Forty ranges X_j ("<rank pair j>:0.25") are parsed, then `distance - 40` times a range that
/// shares no combo with any of them, then for each j a range Y_j that contains X_j's combos again
/// ("<rank pair j>:0.5,32s").  All forty related parses are exactly `distance` parses apart; every
/// Y_j must hold what its text denotes, whatever was parsed 256 or 65,536 parses earlier.
pub fn check_parse_history(distance: &u32) -> CheckResult {
    let d = *distance;
    vensure!((41..=200_000).contains(&d), "bad-case", "distance outside the domain");
    let cells: Vec<Cell> = all_cells().into_iter().filter(|c| !(c.hi == 11 && c.lo == 12)).take(40).collect();
    let extra = Cell { kind: Kind::Suited, hi: 11, lo: 12 };
    for c in &cells {
        let r = format!("{}:0.25", c.name()).parse::<espada::hand_range::HandRange>();
        vensure!(r.is_ok(), "own-notation-rejected", "{}:0.25 is rejected", c.name());
        std::hint::black_box(r.map(|r| r.card_pairs().len()).unwrap_or(0));
    }
    for _ in 0..(d - 40) {
        std::hint::black_box("32o".parse::<espada::hand_range::HandRange>().map(|r| r.card_pairs().len()).unwrap_or(0));
    }
    for c in &cells {
        let text = format!("{}:0.5,{}", c.name(), extra.name());
        let Ok(r) = text.parse::<espada::hand_range::HandRange>() else {
            return Err(Fail::new("history:own-notation-rejected", format!("{:?} is rejected {} parses after {}:0.25 was parsed on the thread", text, d, c.name())));
        };
        let mut want = RangeMap::new();
        for p in c.combos() {
            want.insert(p, 0.5);
        }
        for p in extra.combos() {
            want.insert(p, 1.0);
        }
        if let Some(diff) = diff_maps(&want, &espada_map(&r)) {
            return Err(Fail::new("history:list-meaning", format!("{:?} parsed {} parses after {}:0.25 had been parsed on the same thread (only ranges sharing no combo with it in between) does not hold what it denotes: {}", text, d, c.name(), diff)));
        }
    }
    Ok(Outcome::new(true, d as u64, if d >= 60_000 { 2 } else { 1 }))
}
pub const HISTORY_CLASSES: &[&str] = &["distance_around_256", "distance_around_65536"];

pub fn replay(stream: &str, path: &str, case: &Value) -> i32 {
    if stream == "long_parse_histories" {
        return replay_case::<u32>("C05", path, case, check_parse_history);
    }
    match stream {
        "token_lists" | "long_token_lists" | "full_cover_then_overrides" => replay_case::<ListCase>("C05", path, case, check_list),
        _ => replay_case::<WTok>("C05", path, case, check_token),
    }
}
