//! C03 — a showdown flags exactly the players holding the strongest hand as winners.

use crate::cards::*;
use crate::hand5::*;
use crate::props::c01::{eval, targeted};
use crate::runner::*;
use crate::vensure;
use espada::evaluator::Showdown;
use proptest::prelude::*;
use serde::{Deserialize, Serialize};
use serde_json::{json, Value};

#[derive(Clone, Debug, Serialize, Deserialize)]
pub struct Case {
    pub board: Vec<u8>,
    pub players: Vec<(u8, u8)>,
    pub prob: f32,
    /// Some((seat, which hole card, board position)): that hole card is replaced by the board card
    pub collide: Option<(usize, u8, usize)>,
}

pub fn brief(c: &Case) -> Value {
    json!({
        "board": cnames(&c.board),
        "players": c.players.iter().map(|p| format!("{}{}", cname(p.0), cname(p.1))).collect::<Vec<_>>().join(" "),
        "collide": c.collide,
    })
}

pub fn check(c: &Case) -> CheckResult {
    vensure!(c.board.len() == 5 && !c.players.is_empty(), "bad-case", "need a 5-card board and >= 1 player");
    let mut seen = 0u64;
    for x in c.board.iter().chain(c.players.iter().flat_map(|p| [&p.0, &p.1])) {
        vensure!(*x < 52 && seen >> x & 1 == 0, "bad-case", "cards are not distinct");
        seen |= 1 << x;
    }
    let board: [Cid; 5] = c.board.clone().try_into().unwrap();
    let eb = [e_card(board[0]), e_card(board[1]), e_card(board[2]), e_card(board[3]), e_card(board[4])];
    let mut holes: Vec<(u8, u8)> = c.players.clone();
    if let Some((seat, which, bi)) = c.collide {
        let seat = seat % holes.len();
        let bc = board[bi % 5];
        if which % 2 == 0 {
            holes[seat].0 = bc;
        } else {
            holes[seat].1 = bc;
        }
        let pairs = holes.iter().map(|h| e_pair(h.0, h.1)).collect();
        let r = Showdown::new(pairs, eb, c.prob);
        vensure!(r.is_none(), "collision-produces-showdown", "board {}, player {} holds the board card {} but a showdown was produced", cnames(&board), seat, cname(bc));
        return Ok(Outcome::new(true, fp_of(&(board, &holes)), 1 << 5));
    }
    let pairs = holes.iter().map(|h| e_pair(h.0, h.1)).collect();
    let Some(s) = Showdown::new(pairs, eb, c.prob) else {
        return Err(Fail::new("valid-input-no-showdown", format!("board {} players {:?}: all cards distinct but no showdown was produced", cnames(&board), holes.iter().map(|h| pname(*h)).collect::<Vec<_>>())));
    };
    let ctx_s = || format!("board {} players {}", cnames(&board), holes.iter().map(|h| pname(norm_pair(h.0, h.1))).collect::<Vec<_>>().join(" "));
    let sb: Vec<u8> = s.board().iter().map(cid_of).collect();
    vensure!(sb == c.board, "board-changed", "{}: showdown board is {}", ctx_s(), cnames(&sb));
    vensure!(s.probability().to_bits() == c.prob.to_bits(), "probability-changed", "{}: probability {} given, {} reported", ctx_s(), c.prob, s.probability());
    let ps = s.players();
    vensure!(ps.len() == holes.len(), "player-count", "{}: {} players reported", ctx_s(), ps.len());
    let t = table();
    let mut refc = Vec::with_capacity(holes.len());
    for (i, p) in ps.iter().enumerate() {
        let got = pair_ids(&p.hole_cards());
        vensure!(got == norm_pair(holes[i].0, holes[i].1), "player-order", "{}: seat {} holds {}", ctx_s(), i, pname(got));
        let pc: Vec<u8> = p.cards().iter().map(cid_of).collect();
        let pb: Vec<u8> = p.board().iter().map(cid_of).collect();
        vensure!(pb == c.board && pc[..5] == c.board[..] && norm_pair(pc[5], pc[6]) == got, "player-cards", "{}: seat {} cards() = {}", ctx_s(), i, cnames(&pc));
        let seven = [board[0], board[1], board[2], board[3], board[4], got.0, got.1];
        let own = eval(&seven);
        vensure!(p.hand() == own && p.hand().power_index() == own.power_index(), "player-hand", "{}: seat {} reports hand index {}, evaluating its own seven cards gives {}", ctx_s(), i, p.hand().power_index(), own.power_index());
        refc.push(t.class7(&seven));
    }
    let best = *refc.iter().min().unwrap();
    let mut flagged = 0u32;
    for (i, p) in ps.iter().enumerate() {
        let should = refc[i] == best;
        if p.is_winner() {
            flagged += 1;
        }
        vensure!(
            p.is_winner() == should,
            if should { "winner-not-flagged" } else { "loser-flagged" },
            "{}: seat {} (best hand {}) is_winner() = {}, strongest hand at the table is {}",
            ctx_s(),
            i,
            t.describe(refc[i]),
            p.is_winner(),
            t.describe(best)
        );
    }
    vensure!(s.winner_len() as u32 == flagged && flagged >= 1, "winner-len", "{}: winner_len() = {}, {} players flagged", ctx_s(), s.winner_len(), flagged);
    // call history on the same board: rejected calls (a hole card of some seat replaced by a board
    // card, first or second card) in between must not influence an identical valid call afterwards
    let snapshot = |s: &Showdown| -> Vec<(u16, bool, Vec<u8>)> { s.players().iter().map(|p| (p.hand().power_index(), p.is_winner(), p.cards().iter().map(cid_of).collect())).collect() };
    let first = snapshot(&s);
    let seat = (board[0] as usize + board[4] as usize) % holes.len();
    for which in 0..2u8 {
        let mut bad = holes.clone();
        let bc = board[(which as usize * 3 + seat) % 5];
        if which == 0 {
            bad[seat].0 = bc;
        } else {
            bad[seat].1 = bc;
        }
        // keep the pair's internal order as CardPair::new will sort it: exercise both positions
        let r = Showdown::new(bad.iter().map(|h| e_pair(h.0, h.1)).collect(), eb, c.prob);
        vensure!(r.is_none(), "collision-produces-showdown", "{}: seat {} holds the board card {} but a showdown was produced", ctx_s(), seat, cname(bc));
        let again = Showdown::new(holes.iter().map(|h| e_pair(h.0, h.1)).collect(), eb, c.prob);
        match again {
            Some(a) => {
                let snap = snapshot(&a);
                vensure!(snap == first, "history-dependent-showdown", "{}: the same call gives a different result after a rejected call on the same board (seat {} given the board card {}): first {:?}, then {:?}", ctx_s(), seat, cname(bc), first.iter().map(|x| (x.0, x.1)).collect::<Vec<_>>(), snap.iter().map(|x| (x.0, x.1)).collect::<Vec<_>>());
            }
            None => return Err(Fail::new("history-dependent-showdown", format!("{}: a valid call returns None after a rejected call on the same board (seat {} given the board card {})", ctx_s(), seat, cname(bc)))),
        }
    }
    let n = holes.len() as u32;
    let cls = match flagged {
        1 => 1,
        2 => 2,
        _ => 4,
    } | if flagged == n && n >= 2 { 8 } else { 0 }
        | if n >= 3 { 16 } else { 0 }
        | if n >= 11 { 64 } else { 0 }
        | if flagged >= 2 && refc.iter().position(|x| *x == best).unwrap() > 0 { 128 } else { 0 };
    Ok(Outcome::new(flagged >= 2 || n >= 3, fp_of(&(board, &holes)), cls))
}

pub const CLASSES: &[&str] = &["one_winner", "two_way_tie", "three_plus_way_tie", "everybody_ties", "three_plus_players", "board_collision", "more_than_ten_players", "tie_not_including_seat_0"];

pub fn strategy(max_players: usize) -> impl Strategy<Value = Case> {
    (0u8..11, proptest::collection::vec(any::<u8>(), 40), 1usize..=max_players, proptest::collection::vec(any::<u8>(), 4 * max_players), weight(), proptest::option::weighted(0.08, (0usize..32, 0u8..2, 0usize..5))).prop_map(|(kind, bb, n, pb, prob, collide)| {
        // board: first five cards of a category-targeted 7-card set (kind 10 = uniform)
        let seven = targeted(kind, &bb);
        let board: Vec<u8> = seven[..5].to_vec();
        let mut used = 0u64;
        for c in &board {
            used |= 1 << c;
        }
        let mut players: Vec<(u8, u8)> = vec![];
        let mut i = 0usize;
        let next = |i: &mut usize| {
            let b = pb[*i % pb.len()];
            *i += 1;
            b
        };
        let free = |used: u64, start: u8| -> u8 {
            let mut c = start % 52;
            while used >> c & 1 == 1 {
                c = (c + 1) % 52;
            }
            c
        };
        for _ in 0..n {
            let mode = next(&mut i) % 5;
            let mut h: Vec<u8> = vec![];
            if mode >= 2 && !players.is_empty() {
                let src = players[next(&mut i) as usize % players.len()];
                let ranks = if mode == 4 { vec![src.0 / 4] } else { vec![src.0 / 4, src.1 / 4] };
                for r in ranks {
                    let s0 = next(&mut i) % 4;
                    for ds in 0..4 {
                        let c = r * 4 + (s0 + ds) % 4;
                        if used >> c & 1 == 0 {
                            used |= 1 << c;
                            h.push(c);
                            break;
                        }
                    }
                }
            }
            while h.len() < 2 {
                let c = free(used, ((next(&mut i) as usize * 3 + next(&mut i) as usize) % 52) as u8);
                used |= 1 << c;
                h.push(c);
            }
            players.push((h[0], h[1]));
        }
        Case { board, players, prob, collide }
    })
}

fn weight() -> impl Strategy<Value = f32> {
    prop_oneof![Just(1.0f32), Just(0.5f32), (0u32..=0x3f80_0000u32).prop_map(f32::from_bits)]
}

pub fn run(ctx: &mut Ctx) {
    ctx.rule = "proptest: boards = first five cards of category-targeted sets (board-plays straights/flushes/full houses/quads, paired boards, near misses, uniform); 1..=10 players (thorough: up to 23) with uniform, mirrored (same ranks, other suits), rank-sharing hole cards; 8% of cases inject a board collision. Oracle: Some/None, players in input order, cards(), hand == evaluation of own seven cards, is_winner <=> reference class (best of 21) equals the table minimum, winner_len == flagged >= 1, probability bit-identical; call history: two rejected calls on the same board (a seat's first resp. second hole card replaced by a board card) followed each time by the identical valid call, which must give the identical result. Non-trivial = >= 2 winners or >= 3 players; distinct by (board, hole cards).".into();
    ctx.assumptions = vec!["'no other player beats' is decided by the harness's reference classifier (C01's oracle), so a wrong evaluation also shows up here".into()];
    let cases = ctx.tier.pick(1_500_000, 40_000_000);
    ctx.run_random_brief(StreamCfg::new("tables_up_to_10", CLASSES, cases), || strategy(10), check, brief);
    for (c, d) in [("two_way_tie", 50), ("three_plus_way_tie", 100), ("everybody_ties", 100), ("board_collision", 50), ("tie_not_including_seat_0", 200)] {
        ctx.require_class("tables_up_to_10", c, cases / d);
    }
    let cases = ctx.tier.pick(200_000, 5_000_000);
    ctx.run_random_brief(StreamCfg::new("tables_up_to_23", CLASSES, cases), || strategy(23), check, brief);
    ctx.require_class("tables_up_to_23", "more_than_ten_players", cases / 10);
}

pub fn replay(_stream: &str, path: &str, case: &Value) -> i32 {
    replay_case::<Case>("C03", path, case, check)
}
