//! C15 — evaluator instances are independent under any interleaving or thread schedule.
//! In-process part: generated interleavings of next() calls over several live evaluators on one
//! thread.  Thread part: the isolated binary `c15_threads` (one process per generated case), which
//! also carries the compile-time Send/Sync assertions.

use crate::evalmodel::*;
use crate::props::c04::{cfg_strategy, window_strategy};
use crate::runner::*;
use crate::vensure;
use proptest::prelude::*;
use serde::{Deserialize, Serialize};
use serde_json::{json, Value};
use std::io::Write;
use std::process::{Command, Stdio};
use std::sync::atomic::{AtomicU64, Ordering};

#[derive(Clone, Debug, Serialize, Deserialize)]
pub struct Case {
    pub cfgs: Vec<Config>,
    /// (evaluator index, burst length): that evaluator takes the next `burst` next() calls
    pub schedule: Vec<(u8, u16)>,
}

/// schedule entry (e, DROP_RESTART): drop evaluator e's iterator and create a fresh instance
pub const DROP_RESTART: u16 = 0xffff;
/// schedule entry (e, FAILED_SIBLING): an evaluator with an invalid board (a fourth card, a flop
/// card twice, or only two cards - derived from evaluator e's flop) is built and started under
/// catch_unwind; whether that panics or not, the live evaluators and later ones must not notice
pub const FAILED_SIBLING: u16 = 0xfffe;
/// schedule entry (e, MANY_SIBLINGS): about 250 short-lived evaluators on other flops are built,
/// advanced once and dropped; the first such entry of a case whose e is a multiple of 4 builds
/// about 65,500 instead.  Afterwards 64 rounds of: one more sibling, restart one of the case's
/// evaluators from scratch, two steps - so that fresh instances are created 250..314 resp.
/// 65,500..65,564 constructions after the first ones (wrap points of 8/16-bit generation counters)
pub const MANY_SIBLINGS: u16 = 0xfffd;

pub fn solo(cfg: &Config) -> Result<Seq, Fail> {
    run_seq(cfg, cfg.slots().min(1 << 40) as usize, 2)
}

pub fn check(c: &Case) -> CheckResult {
    let k = c.cfgs.len();
    vensure!(k >= 1 && c.cfgs.iter().all(|c| c.valid()), "bad-case", "invalid case");
    let expected: Vec<Seq> = c.cfgs.iter().map(solo).collect::<Result<_, _>>()?;
    let trs: Vec<Translator> = c.cfgs.iter().map(Translator::new).collect();
    // configurations with equal ranges are built from ONE shared Vec<HandRange> (parse once,
    // evaluate on many flops / scopes); the solo references above come from fresh objects
    let mut shared: Vec<(usize, Vec<espada::hand_range::HandRange>)> = vec![];
    let build = |i: usize, shared: &mut Vec<(usize, Vec<espada::hand_range::HandRange>)>| {
        let cfg = &c.cfgs[i];
        let pos = shared.iter().position(|(j, _)| c.cfgs[*j].ranges == cfg.ranges);
        let players = match pos {
            Some(p) => &shared[p].1,
            None => {
                shared.push((i, cfg.ranges.iter().map(|r| r.to_espada()).collect()));
                &shared.last().unwrap().1
            }
        };
        let mut e = espada::evaluator::FlopExhaustiveEvaluator::new(&crate::cards::e_board(&cfg.flop), players);
        if let Some((a, b, cc, d)) = cfg.scope {
            e.scope(a, b, cc, d);
        }
        e.into_iter()
    };
    let mut its: Vec<_> = (0..k).map(|i| build(i, &mut shared)).collect();
    let mut got: Vec<Seq> = vec![vec![]; k];
    let mut done = vec![false; k];
    let mut switches_live = 0u64;
    let mut last: Option<usize> = None;
    let step = |i: usize, its: &mut Vec<<espada::evaluator::FlopExhaustiveEvaluator as IntoIterator>::IntoIter>, got: &mut Vec<Seq>, done: &mut Vec<bool>| -> Result<(), Fail> {
        match its[i].next() {
            Some(s) => {
                if done[i] {
                    return Err(Fail::new("resurrected", format!("evaluator {} returned a showdown after it had returned None", i)));
                }
                let (t, r, fp) = trs[i].light(&s);
                if got[i].len() > expected[i].len() {
                    return Err(Fail::new("interleaving-extra", format!("evaluator {} yields more showdowns interleaved ({}+) than alone ({})", i, got[i].len(), expected[i].len())));
                }
                got[i].push((pos_index(t.min(r), t.max(r)), fp));
            }
            None => done[i] = true,
        }
        Ok(())
    };
    let mut restarts = 0u64;
    let mut failed_siblings = 0u64;
    let mut sibling_batches = 0u64;
    let mut big_batch_done = false;
    let sibling = |n: u64, flop: &[u8; 3]| {
        // a short-lived evaluator on another flop
        let mut v: Vec<u8> = vec![];
        let mut c = (n % 52) as u8;
        while v.len() < 3 {
            if !flop.contains(&c) && !v.contains(&c) {
                v.push(c);
            }
            c = (c + 1) % 52;
        }
        let f = [v[0], v[1], v[2]];
        let e = espada::evaluator::FlopExhaustiveEvaluator::new(&crate::cards::e_board(&f), &vec![]);
        let mut it = e.into_iter();
        std::hint::black_box(it.next().is_some());
    };
    for (e, burst) in &c.schedule {
        let i = *e as usize % k;
        if *burst == FAILED_SIBLING {
            let flop = c.cfgs[i].flop;
            let mut b = crate::cards::e_board(&flop);
            let extra = (0..52u8).find(|x| !flop.contains(x)).unwrap();
            match e / 8 % 3 {
                0 => b[3] = Some(crate::cards::e_card(extra)),
                1 => b[2] = b[0],
                _ => b[2] = None,
            }
            let players: Vec<espada::hand_range::HandRange> = c.cfgs[i].ranges.iter().map(|r| r.to_espada()).collect();
            let _ = catch(|| {
                let ev = espada::evaluator::FlopExhaustiveEvaluator::new(&b, &players);
                let mut it = ev.into_iter();
                std::hint::black_box(it.next().is_some());
            });
            failed_siblings += 1;
            continue;
        }
        if *burst == MANY_SIBLINGS {
            let big = e % 4 == 0 && !big_batch_done;
            let n = if big { 65_500 } else { 250 };
            big_batch_done |= big;
            for j in 0..n {
                sibling(j, &c.cfgs[i].flop);
            }
            for j in 0..64u64 {
                sibling(j + 7, &c.cfgs[i].flop);
                let r = (i + j as usize) % k;
                if got[r].len() > expected[r].len() || got[r][..] != expected[r][..got[r].len()] {
                    return Err(Fail::new("interleaving-differs", format!("evaluator {} of {}: the {} showdowns it yielded before being dropped are not a prefix of its solo sequence (after {}+{} short-lived sibling evaluators)", r, k, got[r].len(), n, j)));
                }
                its[r] = build(r, &mut shared);
                got[r].clear();
                done[r] = false;
                step(r, &mut its, &mut got, &mut done)?;
                step(r, &mut its, &mut got, &mut done)?;
            }
            sibling_batches += if big { 1 << 32 } else { 1 };
            last = None;
            continue;
        }
        if *burst == DROP_RESTART {
            // drop this evaluator's iterator in mid-run and start an identically constructed one:
            // what it yielded so far must be a prefix of its solo sequence, the new instance
            // starts from the beginning again, the others must not notice
            if got[i].len() > expected[i].len() || got[i][..] != expected[i][..got[i].len()] {
                return Err(Fail::new("interleaving-differs", format!("evaluator {} of {}: the {} showdowns it yielded before being dropped are not a prefix of its solo sequence", i, k, got[i].len())));
            }
            its[i] = build(i, &mut shared);
            got[i].clear();
            done[i] = false;
            restarts += 1;
            last = None;
            continue;
        }
        for _ in 0..*burst {
            if let Some(l) = last {
                if l != i && !done[l] && !done[i] {
                    switches_live += 1;
                }
            }
            last = Some(i);
            step(i, &mut its, &mut got, &mut done)?;
        }
    }
    // drain what is left, round robin
    let mut guard = 0u64;
    while done.iter().any(|d| !d) {
        for i in 0..k {
            if !done[i] {
                step(i, &mut its, &mut got, &mut done)?;
            }
        }
        guard += 1;
        vensure!(guard < 1 << 32, "no-termination", "round robin drain does not terminate");
    }
    for i in 0..k {
        if got[i] != expected[i] {
            let d = got[i].iter().zip(expected[i].iter()).position(|(a, b)| a != b).unwrap_or(got[i].len().min(expected[i].len()));
            return Err(Fail::new(
                "interleaving-differs",
                format!(
                    "evaluator {} of {} (flop {}, scope {:?}) gives a different sequence when its next() calls are interleaved with the others: {} showdowns interleaved vs {} alone, first difference at element {}",
                    i,
                    k,
                    crate::cards::cnames(&c.cfgs[i].flop),
                    c.cfgs[i].scope,
                    got[i].len(),
                    expected[i].len(),
                    d
                ),
            ));
        }
    }
    let mut cls = 0u64;
    if switches_live > 0 {
        cls |= 1;
    }
    if (0..k).any(|i| (0..i).any(|j| c.cfgs[i] == c.cfgs[j])) {
        cls |= 2;
    }
    if (0..k).any(|i| (0..i).any(|j| c.cfgs[i].flop == c.cfgs[j].flop && c.cfgs[i].ranges == c.cfgs[j].ranges && c.cfgs[i].scope != c.cfgs[j].scope)) {
        cls |= 4;
    }
    if switches_live >= 100 {
        cls |= 8;
    }
    if (0..k).any(|i| (0..i).any(|j| c.cfgs[i].flop != c.cfgs[j].flop && {
        let (mut a, mut b) = (c.cfgs[i].flop, c.cfgs[j].flop);
        a.sort_unstable();
        b.sort_unstable();
        a == b
    })) {
        cls |= 32;
    }
    if restarts > 0 {
        cls |= 16;
    }
    if failed_siblings > 0 {
        cls |= 128;
    }
    if sibling_batches & 0xffff_ffff > 0 {
        cls |= 256;
    }
    if sibling_batches >> 32 > 0 {
        cls |= 512;
    }
    if (0..k).any(|i| (0..i).any(|j| c.cfgs[i].ranges == c.cfgs[j].ranges && !c.cfgs[i].ranges.is_empty() && {
        let (mut a, mut b) = (c.cfgs[i].flop, c.cfgs[j].flop);
        a.sort_unstable();
        b.sort_unstable();
        a != b
    })) {
        cls |= 64;
    }
    Ok(Outcome::new(k >= 2 && switches_live > 0, fp_of(&format!("{:?}", c)), cls))
}
pub const CLASSES: &[&str] = &["context_switch_between_live_evaluators", "identical_evaluators", "same_inputs_different_scope", "hundred_plus_switches", "drop_and_restart_mid_run", "same_flop_cards_other_order", "shared_ranges_on_different_flops", "failed_sibling_evaluator", "about_256_sibling_evaluators", "about_65536_sibling_evaluators"];

pub fn scoped_cfg() -> impl Strategy<Value = Config> {
    (cfg_strategy(), proptest::option::weighted(0.6, window_strategy())).prop_map(|(mut c, w)| {
        if let Some((a, b)) = w {
            let (pa, pb) = (index_pos(a), index_pos(b));
            c.scope = Some((pa.0, pa.1, pb.0, pb.1));
        }
        c
    })
}

pub fn cfgs_strategy(max: usize) -> impl Strategy<Value = Vec<Config>> {
    (proptest::collection::vec(scoped_cfg(), 1..=max), proptest::collection::vec((any::<u8>(), any::<u8>(), proptest::option::of(window_strategy())), 0..3)).prop_map(|(mut v, dups)| {
        // some evaluators identical to / differing only by scope from another one
        for (src, _, w) in dups {
            let mut c = v[src as usize % v.len()].clone();
            // every other duplicate lists the same three flop cards in another order
            match (src >> 4) % 8 {
                1 => c.flop.swap(0, 1),
                2 => c.flop.swap(1, 2),
                3 => c.flop.rotate_left(1),
                // the same ranges on an entirely different flop
                4 | 5 => {
                    let f0 = (c.flop[0] as usize + 7 + (src as usize >> 2)) % 52;
                    let mut f = [f0 as u8, ((f0 + 13) % 52) as u8, ((f0 + 30) % 52) as u8];
                    f.rotate_left((src % 3) as usize);
                    c.flop = f;
                }
                _ => {}
            }
            if let Some((a, b)) = w {
                let (pa, pb) = (index_pos(a), index_pos(b));
                c.scope = Some((pa.0, pa.1, pb.0, pb.1));
            }
            if v.len() < 6 {
                v.push(c);
            }
        }
        v
    })
}

pub fn strategy() -> impl Strategy<Value = Case> {
    let burst = prop_oneof![8 => Just(1u16), 4 => 1u16..8, 2 => 1u16..400, 2 => Just(5000u16), 1 => Just(DROP_RESTART), 1 => Just(FAILED_SIBLING), 1 => prop_oneof![40 => Just(1u16), 1 => Just(MANY_SIBLINGS)]];
    // in half of the cases no burst is longer than three calls: long bursts drain the evaluators
    // within a few entries, after which nothing is interleaved any more
    (cfgs_strategy(4), proptest::collection::vec((any::<u8>(), burst), 0..300), any::<bool>()).prop_map(|(cfgs, mut schedule, fine)| {
        if fine {
            for e in schedule.iter_mut() {
                if e.1 >= 4 && e.1 < MANY_SIBLINGS {
                    e.1 = 1 + e.1 % 3;
                }
            }
        }
        Case { cfgs, schedule }
    })
}

// ---------------------------------------------------------------------------------------------
// thread part, through the isolated binary

#[derive(Clone, Debug, Serialize, Deserialize)]
pub struct ThreadCase {
    pub cfgs: Vec<Config>,
    pub rounds: u8,
    /// (evaluator index, steps taken on the first thread before the iterator is handed over)
    pub handovers: Vec<(u8, u16)>,
}

pub static CHILD_PROBLEMS: AtomicU64 = AtomicU64::new(0);

fn threads_bin() -> String {
    format!("{}/harness/target/release/c15_threads", verif_dir())
}

pub fn check_threads(c: &ThreadCase) -> CheckResult {
    vensure!(!c.cfgs.is_empty() && c.cfgs.iter().all(|c| c.valid()), "bad-case", "invalid case");
    let mut child = match Command::new(threads_bin()).stdin(Stdio::piped()).stdout(Stdio::piped()).stderr(Stdio::piped()).spawn() {
        Ok(c) => c,
        Err(_) => {
            CHILD_PROBLEMS.fetch_add(1, Ordering::Relaxed);
            return Ok(Outcome::default());
        }
    };
    {
        let mut si = child.stdin.take().unwrap();
        let _ = si.write_all(serde_json::to_string(c).unwrap().as_bytes());
        let _ = si.write_all(b"\n");
    }
    let out = child.wait_with_output().unwrap();
    let so = String::from_utf8_lossy(&out.stdout).to_string();
    for l in so.lines() {
        if let Some(rest) = l.strip_prefix("FAIL ") {
            let (sig, what) = rest.split_once(' ').unwrap_or((rest, ""));
            return Err(Fail::new(sig, what));
        }
        if l.starts_with("OK") {
            let live = c.cfgs.len() >= 2;
            let mut cls = 0u64;
            if live {
                cls |= 1;
            }
            if !c.handovers.is_empty() {
                cls |= 2;
            }
            if c.cfgs.len() >= 8 {
                cls |= 4;
            }
            return Ok(Outcome::new(live, fp_of(&format!("{:?}", c)), cls));
        }
    }
    Err(Fail::new("thread-child-crash", format!("c15_threads ended without a verdict (status {:?}): {}", out.status, String::from_utf8_lossy(&out.stderr).lines().take(5).collect::<Vec<_>>().join(" | "))))
}
pub const T_CLASSES: &[&str] = &["two_plus_concurrent_evaluators", "iterator_handed_over_between_threads", "eight_plus_threads"];

pub fn thread_strategy() -> impl Strategy<Value = ThreadCase> {
    (cfgs_strategy(16), 1u8..4, proptest::collection::vec((any::<u8>(), prop_oneof![Just(0u16), 1u16..50, 1u16..3000]), 0..4)).prop_map(|(cfgs, rounds, handovers)| ThreadCase { cfgs, rounds, handovers })
}

/// heavier thread cases: 4-16 evaluators over multi-combo two-player ranges on different flops
/// (tens to hundreds of thousands of showdowns each), all drained at the same time
pub fn heavy_thread_strategy() -> impl Strategy<Value = ThreadCase> {
    let cfg = (flop_strategy(), range_from(crate::cards::all_combos(), 6, 24), range_from(crate::cards::all_combos(), 6, 24)).prop_map(|(flop, a, b)| {
        let mut c = Config { flop, ranges: vec![a, b], scope: None };
        fit_budget(&mut c, 400_000);
        c
    });
    (proptest::collection::vec(cfg, 4..=16), 1u8..3, proptest::collection::vec((any::<u8>(), 1u16..3000), 0..2)).prop_map(|(cfgs, rounds, handovers)| ThreadCase { cfgs, rounds, handovers })
}

pub fn run(ctx: &mut Ctx) {
    ctx.rule = "in-process: 1-6 live evaluators over small generated configurations (some identical, some differing only by scope, by the order of the three flop cards, or using the same ranges on another flop; evaluators with equal ranges are built from one shared Vec<HandRange>, the solo references from fresh objects), a generated schedule of (evaluator, burst) steps (single steps, short bursts, long bursts, finish-one-then-resume, dropping an iterator in mid-run and starting an identically constructed one; building and starting an evaluator with an invalid board - a fourth card, a flop card twice, two cards - under catch_unwind; building about 250 or about 65,500 short-lived evaluators on other flops and then restarting the case's evaluators over the next 64 constructions) followed by a round-robin drain; each evaluator's interleaved fingerprint sequence must equal, element by element, the sequence of an identically constructed evaluator iterated alone. Thread part (isolated binary, one process per case): 1-19 evaluators each drained on its own thread behind a barrier, evaluators built on the main thread and moved, ranges shared through Arc, showdowns sent back through a channel, collected showdowns shared through one Arc and read by four threads at once, iterators advanced on one thread and handed over to another; 1-3 rounds; stream heavy_thread_rounds: 4-16 evaluators over 6-24-combo two-player ranges on different flops (up to 400k slots each) drained simultaneously. Non-trivial = >= 2 evaluators with >= 1 context switch between two non-exhausted evaluators (threads: >= 2 concurrent evaluators); distinct by case.".into();
    ctx.assumptions = vec![
        "OS thread schedules are only sampled; the deterministic single-thread interleavings are the deciding step for shared state through statics or thread-locals".into(),
        "Send/Sync of FlopExhaustiveEvaluator, its iterator, HandRange, Showdown, HandRangeToken, MadeHand, CardPair is a compile-time by-product of building c15_threads".into(),
    ];
    if let Ok(p) = std::env::var("C15_COMPILE_FAIL") {
        let msg = std::fs::read_to_string(&p).unwrap_or_default();
        let first = msg.lines().find(|l| l.starts_with("error")).unwrap_or("compile error").to_string();
        println!("VIOLATION property=C15 replay={}", p);
        println!("  the Send/Sync assertions of c15_threads do not compile: {}", first);
        ctx.violations.push(Violation { stream: "send_sync_compile".into(), replay: p, what: first, sig: "send-sync-compile".into() });
    }
    let cases = ctx.tier.pick(40_000, 400_000);
    ctx.run_random_brief(StreamCfg::new("interleavings", CLASSES, cases).shrink(300), strategy, check, |c| json!({"evaluators": c.cfgs.iter().map(|c| c.brief()).collect::<Vec<_>>(), "schedule_head": c.schedule.iter().take(12).collect::<Vec<_>>(), "schedule_len": c.schedule.len()}));
    ctx.require_class("interleavings", "context_switch_between_live_evaluators", cases / 3);
    ctx.require_class("interleavings", "identical_evaluators", cases / 10);
    ctx.require_class("interleavings", "drop_and_restart_mid_run", cases / 4);
    ctx.require_class("interleavings", "same_flop_cards_other_order", cases / 20);
    ctx.require_class("interleavings", "shared_ranges_on_different_flops", cases / 20);
    ctx.require_class("interleavings", "same_inputs_different_scope", cases / 20);
    ctx.require_class("interleavings", "hundred_plus_switches", cases / 40);
    ctx.require_class("interleavings", "failed_sibling_evaluator", cases / 4);
    ctx.require_class("interleavings", "about_256_sibling_evaluators", cases / 40);
    ctx.require_class("interleavings", "about_65536_sibling_evaluators", cases / 200);
    if std::env::var("C15_COMPILE_FAIL").is_err() {
        if !std::path::Path::new(&threads_bin()).exists() {
            ctx.unhealthy.push(format!("{} is missing", threads_bin()));
            return;
        }
        let cases = ctx.tier.pick(3_000, 40_000);
        ctx.run_random_brief(StreamCfg::new("thread_rounds", T_CLASSES, cases).shrink(60), thread_strategy, check_threads, |c| json!({"evaluators": c.cfgs.len(), "first": c.cfgs[0].brief(), "rounds": c.rounds, "handovers": c.handovers}));
        ctx.require_class("thread_rounds", "two_plus_concurrent_evaluators", cases / 2);
        ctx.require_class("thread_rounds", "iterator_handed_over_between_threads", cases / 3);
        let cases = ctx.tier.pick(64, 1_600);
        ctx.run_random_brief(StreamCfg::new("heavy_thread_rounds", T_CLASSES, cases).shrink(12), heavy_thread_strategy, check_threads, |c| json!({"evaluators": c.cfgs.len(), "first": c.cfgs[0].brief(), "rounds": c.rounds, "handovers": c.handovers}));
        let p = CHILD_PROBLEMS.load(Ordering::Relaxed);
        if p > 0 {
            ctx.unhealthy.push(format!("{} thread cases could not start their process", p));
        }
    }
}

pub fn replay(stream: &str, path: &str, case: &Value) -> i32 {
    match stream {
        "thread_rounds" => replay_case::<ThreadCase>("C15", path, case, check_threads),
        _ => replay_case::<Case>("C15", path, case, check),
    }
}
