//! C09 — parsers are total: any string yields a value or an error, never a panic; every value can
//!        be expanded, formatted, decomposed and handed to the evaluator.
//! C10 — every parsed range/token holds only real combos (two different cards) with weights in
//!        [0,1]; showdown probabilities from parsed ranges lie in [0,1], no card twice.
//! The two properties share the string generators; `Mode` selects the oracle.

use crate::cards::*;
use crate::props::c05::{list_strategy, list_text};
use crate::runner::*;
use espada::card::{Card, Rank, Suit};
use espada::evaluator::FlopExhaustiveEvaluator;
use espada::hand_range::{CardPair, HandRange, HandRangeToken};
use proptest::prelude::*;
use serde_json::{json, Value};

#[derive(Clone, Copy, PartialEq, Eq, Debug)]
pub enum Mode {
    Total,
    Content,
}

fn esc(s: &str) -> String {
    let mut t: String = s.chars().take(120).flat_map(|c| c.escape_debug()).collect();
    if s.chars().count() > 120 {
        t.push_str(&format!("... ({} bytes)", s.len()));
    }
    t
}

const FLOP: [u8; 3] = [9, 26, 51]; // Qh 8d 2c
const FLOP_MONOTONE: [u8; 3] = [28, 40, 48]; // 7s 4s 2s
const FLOP_PAIRED_LOW: [u8; 3] = [49, 30, 50]; // 2h 7d 2d (the last unseen cards are 2s, 2c)

/// drain an evaluator over parsed ranges, restricted to the first positions
/// `positions`: 0 = the whole enumeration, k > 0 = the first k positions, 255 = the last rows
fn drain_parsed(players: &[HandRange], positions: u8, mode: Mode) -> Result<u64, Fail> {
    drain_parsed_on(&FLOP, players, positions, mode)
}
fn drain_parsed_on(flop: &[u8; 3], players: &[HandRange], positions: u8, mode: Mode) -> Result<u64, Fail> {
    let mut ev = FlopExhaustiveEvaluator::new(&e_board(flop), &players.to_vec());
    match positions {
        0 => {}
        255 => ev.scope(45, 46, 48, 49),
        k => ev.scope(0, 1, 0, 1 + k),
    }
    let mut n = 0u64;
    let mut it = ev.into_iter();
    // callers ask iterators for a size hint (collect, extend, zip): it must simply return, also
    // in mid-run and after the end
    std::hint::black_box(it.size_hint());
    while let Some(s) = it.next() {
        n += 1;
        if n % 64 == 1 {
            std::hint::black_box(it.size_hint());
        }
        if mode == Mode::Content {
            let p = s.probability();
            if !(p >= 0.0 && p <= 1.0) {
                return Err(Fail::new("showdown-probability", format!("showdown probability {} is outside [0,1]", p)));
            }
            let mut seen = 0u64;
            let mut all: Vec<u8> = s.board().iter().map(cid_of).collect();
            for pl in s.players() {
                let h = pl.hole_cards();
                all.push(cid_of(&h[0]));
                all.push(cid_of(&h[1]));
            }
            for c in &all {
                if seen >> c & 1 == 1 {
                    return Err(Fail::new("showdown-card-twice", format!("a showdown from parsed ranges contains {} twice (cards {})", cname(*c), cnames(&all))));
                }
                seen |= 1 << c;
            }
        }
        if n > 4_000_000 {
            break;
        }
    }
    std::hint::black_box(it.size_hint());
    Ok(n)
}

/// A full table: the parsed range at ten seats (for every range beyond a few dozen combos the
/// product of the range sizes exceeds 2^64).  Nothing can be drained there; building the iterator,
/// asking for its size hint and collecting the (empty) prefix of length 0 must return.
fn full_table(r: &HandRange, seats: usize) -> u64 {
    let players: Vec<HandRange> = (0..seats).map(|_| r.clone()).collect();
    let it = FlopExhaustiveEvaluator::new(&e_board(&FLOP), &players).into_iter();
    let (lo, hi) = it.size_hint();
    let v: Vec<espada::evaluator::Showdown> = it.take(0).collect();
    lo as u64 + hi.unwrap_or(0) as u64 + v.len() as u64
}

/// "formatted" includes the format specifications a caller may write: widths shorter and longer
/// than the text, alignments, fills, precisions.  Only "returns" is demanded of them.
fn format_specs<T: std::fmt::Display>(x: &T) -> usize {
    let mut n = 0;
    n += format!("{:1}", x).len();
    n += format!("{:<8}", x).len();
    n += format!("{:>3}", x).len();
    n += format!("{:^12}", x).len();
    n += format!("{:*^5}", x).len();
    n += format!("{:40}", x).len();
    n += format!("{:.1}", x).len();
    n += format!("{:.0}", x).len();
    n += format!("{:6.2}", x).len();
    n += format!("{:>1$}", x, 2).len();
    n += format!("{:<300}", x).len();
    n
}

fn content_of(what: &str, src: &str, combos: &[(CardPair, f32)]) -> Result<(), Fail> {
    for (p, w) in combos {
        if p[0] == p[1] {
            return Err(Fail::new("combo-same-card-twice", format!("{} {:?} contains the combo {}{} made of one card twice", what, esc(src), p[0], p[1])));
        }
        if !(*w >= 0.0 && *w <= 1.0) {
            return Err(Fail::new("weight-out-of-range", format!("{} {:?} gives combo {} the weight {}", what, esc(src), p, w)));
        }
    }
    Ok(())
}

pub const CLASSES: &[&str] = &["rank_ok", "suit_ok", "card_ok", "card_pair_ok", "token_ok", "range_nonempty", "multibyte", "range_ok_empty", "longer_than_1000_bytes"];

pub fn check(mode: Mode, s: &str) -> CheckResult {
    let mut cls = 0u64;
    macro_rules! guarded {
        ($name:expr, $body:expr) => {
            match catch(|| $body) {
                Ok(v) => Some(v),
                Err(p) => {
                    if mode == Mode::Total {
                        let loc = p.rsplit(" at ").next().unwrap_or("?").to_string();
                        return Err(Fail::new(format!("panic:{}@{}", $name, loc), format!("{} on {:?} panicked: {}", $name, esc(s), p)));
                    }
                    None
                }
            }
        };
    }
    if let Some(Ok(_)) = guarded!("parse::<Rank>", s.parse::<Rank>()) {
        cls |= 1;
    }
    if let Some(Ok(_)) = guarded!("parse::<Suit>", s.parse::<Suit>()) {
        cls |= 2;
    }
    if let Some(Ok(c)) = guarded!("parse::<Card>", s.parse::<Card>()) {
        cls |= 4;
        guarded!("Card::to_string", c.to_string());
        guarded!("Card formatted with width/alignment/precision specs", format_specs(&c));
    }
    if let Some(Ok(p)) = guarded!("parse::<CardPair>", s.parse::<CardPair>()) {
        cls |= 8;
        guarded!("CardPair::to_string", p.to_string());
        guarded!("CardPair formatted with width/alignment/precision specs", format_specs(&p));
        if mode == Mode::Content {
            content_of("card pair", s, &[(p, 1.0)])?;
        }
    }
    if let Some(Ok(t)) = guarded!("parse::<HandRangeToken>", s.parse::<HandRangeToken>()) {
        cls |= 16;
        guarded!("HandRangeToken::to_string", t.to_string());
        guarded!("HandRangeToken formatted with width/alignment/precision specs", format_specs(&t));
        if let Some(combos) = guarded!("HandRangeToken::into_iter", t.into_iter().collect::<Vec<_>>()) {
            if mode == Mode::Content {
                content_of("token", s, &combos)?;
            }
        }
    }
    if let Some(Ok(r)) = guarded!("parse::<HandRange>", s.parse::<HandRange>()) {
        let n = r.card_pairs().len();
        if n > 0 {
            cls |= 32;
        } else {
            cls |= 128;
        }
        if mode == Mode::Content {
            let combos: Vec<(CardPair, f32)> = r.card_pairs().iter().map(|(k, v)| (*k, *v)).collect();
            content_of("range", s, &combos)?;
        }
        guarded!("HandRange::to_string", r.to_string());
        if n <= 200 {
            guarded!("HandRange formatted with width/alignment/precision specs", format_specs(&r));
        }
        guarded!("HandRange::rank_pairs", r.rank_pairs());
        guarded!("HandRange::orphan_card_pairs", r.orphan_card_pairs());
        // hand-off to the evaluator
        let fixed: HandRange = [(e_pair(0, 4), 1.0f32), (e_pair(1, 5), 0.5f32)].into_iter().collect();
        let positions = if n > 300 { 1 } else { 3 };
        let r1 = r.clone();
        if let Some(res) = guarded!("FlopExhaustiveEvaluator over the parsed range", drain_parsed(&[r1], positions, mode)) {
            res?;
        }
        // a full table of ten such ranges (and of six): construction and size hint only
        if n > 0 {
            guarded!("FlopExhaustiveEvaluator over ten copies of the parsed range: into_iter() and size_hint()", full_table(&r, 10));
            guarded!("FlopExhaustiveEvaluator over six copies of the parsed range: into_iter() and size_hint()", full_table(&r, 6));
        }
        // to the very end: the whole enumeration for small ranges, the last turn rows otherwise
        let r1 = r.clone();
        if let Some(res) = guarded!("FlopExhaustiveEvaluator over the parsed range, drained to the end", drain_parsed(&[r1], if n <= 24 { 0 } else { 255 }, mode)) {
            res?;
        }
        // a second, monotone flop (flushes on almost every board): whole enumeration for ranges of
        // up to 60 combos
        if n > 0 && n <= 60 {
            let r1 = r.clone();
            if let Some(res) = guarded!("FlopExhaustiveEvaluator over the parsed range on a monotone flop", drain_parsed_on(&FLOP_MONOTONE, &[r1], 0, mode)) {
                res?;
            }
        }
        if n > 0 && n <= 60 {
            let r1 = r.clone();
            if let Some(res) = guarded!("FlopExhaustiveEvaluator over the parsed range on a paired low flop", drain_parsed_on(&FLOP_PAIRED_LOW, &[r1], 0, mode)) {
                res?;
            }
        }
        if n <= 400 {
            let (r1, f) = (r.clone(), fixed.clone());
            if let Some(res) = guarded!("FlopExhaustiveEvaluator over the parsed range and a second player", drain_parsed(&[f, r1], positions, mode)) {
                res?;
            }
        }
        if n <= 16 && n > 0 {
            // the parsed range at seats 0 and 2 around a player that shares no card with it
            let mut used = 0u64;
            for (k, _) in r.card_pairs().iter() {
                used |= 1 << cid_of(&k[0]) | 1 << cid_of(&k[1]);
            }
            let free: Vec<u8> = (0..52u8).filter(|c| used >> c & 1 == 0 && !FLOP.contains(c)).collect();
            if free.len() >= 2 {
                let middle: HandRange = [(e_pair(free[0], free[free.len() - 1]), 0.5f32)].into_iter().collect();
                let (r1, r2) = (r.clone(), r.clone());
                if let Some(res) = guarded!("FlopExhaustiveEvaluator over the parsed range at seats 0 and 2", drain_parsed(&[r1, middle, r2], 1, mode)) {
                    res?;
                }
            }
            let (r1, r2) = (r.clone(), r.clone());
            if let Some(res) = guarded!("FlopExhaustiveEvaluator over the parsed range twice", drain_parsed(&[r1, r2, fixed], 2, mode)) {
                res?;
            }
        }
    }
    if !s.is_ascii() {
        cls |= 64;
    }
    if s.len() > 1000 {
        cls |= 256;
    }
    let nontrivial = match mode {
        Mode::Total => cls & 0b1_1111_1111 != 0 || looks_like_shape(s),
        Mode::Content => cls & (8 | 16 | 32) != 0,
    };
    Ok(Outcome::new(nontrivial, hash_str(s), cls))
}

fn looks_like_shape(s: &str) -> bool {
    let b = s.split(':').next().unwrap_or("");
    matches!(b.chars().count(), 2 | 3 | 4 | 5 | 7) && b.chars().take(2).all(|c| RANK_CH.contains(&c))
}

pub fn check_mode(mode: Mode) -> impl Fn(&String) -> CheckResult + Sync {
    move |s: &String| check(mode, s)
}

// ---------------------------------------------------------------------------------------------
// generators

pub const ALPHABET: [&str; 32] = ["A", "K", "Q", "J", "T", "9", "8", "7", "6", "5", "4", "3", "2", "s", "h", "d", "c", "o", "+", "-", ":", ".", ",", "0", "1", " ", "é", "€", "😀", "a", "k", "S"];

/// i-th string of length `len` over the alphabet
pub fn short_string(len: u32, mut i: u64) -> String {
    let mut s = String::new();
    for _ in 0..len {
        s.push_str(ALPHABET[(i % 32) as usize]);
        i /= 32;
    }
    s
}

/// every string matching one of the seven token shapes with arbitrary ranks (and, for card pairs,
/// arbitrary cards incl. both equal), each without and with a weight
pub fn shape_strings(with_weight_for_all: bool) -> Vec<String> {
    let r = RANK_CH;
    let k = ['s', 'o'];
    let mut v: Vec<String> = vec![];
    let mut push = |s: String, w: bool| {
        if w {
            v.push(format!("{}:0.5", s));
        }
        v.push(s);
    };
    for a in r {
        for b in r {
            push(format!("{}{}", a, b), true);
            push(format!("{}{}+", a, b), true);
            for x in k {
                push(format!("{}{}{}", a, b, x), true);
                push(format!("{}{}{}+", a, b, x), true);
            }
            for c in r {
                for d in r {
                    push(format!("{}{}-{}{}", a, b, c, d), true);
                    for x in k {
                        for y in k {
                            push(format!("{}{}{}-{}{}{}", a, b, x, c, d, y), with_weight_for_all);
                        }
                    }
                }
            }
        }
    }
    for a in 0..52u8 {
        for b in 0..52u8 {
            push(format!("{}{}", cname(a), cname(b)), true);
        }
    }
    // the short shapes again with every mix of upper- and lower-case letters (the notation is
    // case-sensitive: 'Aas' must not become a token of two aces)
    let cased = |c: char| -> Vec<char> { if c.is_ascii_alphabetic() { vec![c, if c.is_ascii_uppercase() { c.to_ascii_lowercase() } else { c.to_ascii_uppercase() }] } else { vec![c] } };
    for a in r {
        for b in r {
            for x in ['s', 'o', '+', ' '] {
                for ca in cased(a) {
                    for cb in cased(b) {
                        for cx in cased(x) {
                            if ca == a && cb == b && cx == x {
                                continue;
                            }
                            let base: String = [ca, cb, cx].iter().filter(|c| **c != ' ').collect();
                            push(base.clone(), false);
                            if x != '+' && x != ' ' {
                                push(format!("{}+", base), false);
                            }
                        }
                    }
                }
            }
        }
    }
    v.sort();
    v.dedup();
    v
}

/// every weight literal of the grammar [01](\.[0-9]{1,3})? on one token of each shape
pub fn weight_literal_strings() -> Vec<String> {
    let shapes = ["AA", "QQ+", "88-66", "JTs", "A9s+", "AQo-A9o", "AsKs"];
    let mut lits: Vec<String> = vec![];
    for i in ["0", "1"] {
        lits.push(i.to_string());
        for d in 1..=3usize {
            for n in 0..10u32.pow(d as u32) {
                lits.push(format!("{}.{:0width$}", i, n, width = d));
            }
        }
    }
    let mut v = vec![];
    for s in shapes {
        for l in &lits {
            v.push(format!("{}:{}", s, l));
        }
    }
    v
}

/// numbers in and outside [0,1] written in other notations (percent, exponent, sign, suffix,
/// fraction, other radix) after the colon of one token of each shape: whatever the grammar accepts
/// now or later, an accepted weight must lie in [0,1]
pub fn decorated_weight_strings() -> Vec<String> {
    let shapes = ["AA", "QQ+", "88-66", "JTs", "A9s+", "AQo-A9o", "AsKs"];
    let nums = ["0", "1", "0.5", "1.0", "1.5", "2", "9", "10", "50", "99", "99.9", "100", "100.0", "100.5", "100.01", "101", "150", "1000", "00.5", "01", "1.00001", "0.99999"];
    let pre = ["", "+", "-", ".", "0x", " "];
    let post = ["", "%", "%%", " %", "e0", "e1", "e-1", "E2", "e+0", "f", "f32", "d", "x", "/1", "/2", "/100", "\u{2030}", "\u{ff05}", "pct", "p"];
    let mut v = vec![];
    for (i, sh) in shapes.iter().enumerate() {
        for n in nums {
            for a in pre {
                for b in post {
                    if a.is_empty() && b.is_empty() {
                        continue;
                    }
                    // every combination on the first shape, a third of them on the others
                    if i == 0 || (n.len() + a.len() * 3 + b.len() * 5 + i) % 3 == 0 {
                        v.push(format!("{}:{}{}{}", sh, a, n, b));
                    }
                }
            }
        }
    }
    v
}

const SPICE: [&str; 28] = [
    "é", "€", "😀", "\u{80}", "\u{0}", "\u{301}", "A", "2", "s", ":", "+", "-", ",", " ", ".", "1",
    // characters that Unicode-aware classes (\d, \w, case-insensitive matching) accept
    "\u{0665}", "\u{ff15}", "\u{0966}", "\u{212a}", "\u{017f}", "\u{ff21}", "\u{ff1a}", "\u{ff0b}", "\u{2010}", "\u{ff0c}", "\u{ff0e}", "\u{1d7d8}",
];

/// look-alikes of a notation character: same class for a Unicode-aware matcher (decimal digits of
/// other scripts, full-width forms, Kelvin sign / long s which case-fold to K / s, ...)
pub fn lookalikes(c: char) -> Vec<char> {
    match c {
        '0'..='9' => {
            let d = c as u32 - '0' as u32;
            [0x0660u32, 0x06f0, 0x0966, 0xff10, 0x1d7d8, 0x0e50].iter().filter_map(|b| char::from_u32(b + d)).collect()
        }
        'A'..='Z' => {
            let mut v = vec![char::from_u32(0xff21 + (c as u32 - 'A' as u32)).unwrap(), c.to_ascii_lowercase()];
            if c == 'K' {
                v.push('\u{212a}');
            }
            v
        }
        'a'..='z' => {
            let mut v = vec![char::from_u32(0xff41 + (c as u32 - 'a' as u32)).unwrap(), c.to_ascii_uppercase()];
            if c == 's' {
                v.push('\u{017f}');
            }
            v
        }
        ':' => vec!['\u{ff1a}', '\u{fe55}', '\u{a789}'],
        '+' => vec!['\u{ff0b}', '\u{207a}'],
        '-' => vec!['\u{2010}', '\u{2212}', '\u{ff0d}', '\u{2013}'],
        ',' => vec!['\u{ff0c}', '\u{201a}', ';'],
        '.' => vec!['\u{ff0e}', '\u{3002}', '\u{2024}'],
        ' ' => vec!['\u{a0}', '\u{2003}', '\t', '\n'],
        _ => vec![],
    }
}

/// every single-character (and, for short bases, double) look-alike substitution in a set of
/// valid texts covering every token shape and weight form
pub fn lookalike_strings() -> Vec<String> {
    let bases = [
        "AA", "QQ+", "88-66", "JTs", "72o", "A9s+", "AQo-A9o", "AsKs", "Td9d", "AA:0.5", "QQ+:0.25", "88-66:1.0", "JTs:0", "A9s+:1", "AQo-A9o:0.125", "AsKs:0.75", "KQs:0.5,JJ+", "TT+, AA:0.5, 65s", " AKs , 22 ", "K", "s", "Ks",
    ];
    let mut v = vec![];
    for b in bases {
        let ch: Vec<char> = b.chars().collect();
        for i in 0..ch.len() {
            for l in lookalikes(ch[i]) {
                let mut c = ch.clone();
                c[i] = l;
                v.push(c.iter().collect::<String>());
                if ch.len() <= 10 {
                    for j in (i + 1)..ch.len() {
                        for l2 in lookalikes(ch[j]).into_iter().take(2) {
                            let mut c2 = c.clone();
                            c2[j] = l2;
                            v.push(c2.iter().collect::<String>());
                        }
                    }
                }
            }
        }
    }
    v.sort();
    v.dedup();
    v
}

pub fn mutated_strategy() -> impl Strategy<Value = String> {
    (list_strategy(4), 0usize..64, 0usize..16, 0u8..3, proptest::option::of((0usize..64, 0usize..16))).prop_map(|(l, pos, sp, op, second)| {
        let base = list_text(&l);
        let mutate = |s: &str, pos: usize, sp: usize, op: u8| -> String {
            let chars: Vec<char> = s.chars().collect();
            let p = if chars.is_empty() { 0 } else { pos % (chars.len() + 1) };
            let mut out = String::new();
            for (i, c) in chars.iter().enumerate() {
                if i == p {
                    match op {
                        0 => {
                            out.push_str(SPICE[sp]);
                            out.push(*c);
                        }
                        1 => out.push_str(SPICE[sp]),
                        _ => {}
                    }
                } else {
                    out.push(*c);
                }
            }
            if p >= chars.len() {
                out.push_str(SPICE[sp]);
            }
            out
        };
        let m = mutate(&base, pos, sp, op);
        match second {
            Some((p2, s2)) => mutate(&m, p2, s2, 0),
            None => m,
        }
    })
}

pub fn mixed_list_strategy() -> impl Strategy<Value = String> {
    let piece = prop_oneof![
        3 => list_strategy(1).prop_map(|l| list_text(&l)),
        2 => "[AKQJT2-9shdco+:.01-]{0,8}",
        1 => "\\PC{0,6}",
        1 => Just(String::new()),
        1 => Just("22-AA".to_string()),
        1 => Just("KAs+".to_string()),
        1 => Just("2As+".to_string()),
        1 => Just("AsAs".to_string()),
        1 => Just("AA:1.5".to_string()),
    ];
    proptest::collection::vec(piece, 0..8).prop_map(|v| v.join(","))
}

pub fn weight_strategy() -> impl Strategy<Value = String> {
    let shapes = prop_oneof![Just("AA"), Just("QQ+"), Just("88-66"), Just("JTs"), Just("A9s+"), Just("AQo-A9o"), Just("AsKs"), Just("AsAs"), Just("KsAs")];
    let lit = prop_oneof![
        2 => "[01]\\.[0-9]{1,12}",
        1 => "[01]\\.[0-9]{0,3}\\p{Nd}[0-9]{0,2}",
        1 => "\\p{Nd}(\\.\\p{Nd}{1,3})?",
        1 => "1\\.0{0,20}[1-9]",
        1 => "0\\.9{1,30}",
        1 => "[01]\\.[0-9]{30,45}",
        1 => "[01]",
        1 => "[0-9]{1,3}(\\.[0-9]{1,3})?",
        1 => "[01]\\.[0-9]{0,3}[eE+-]?[0-9]{0,2}",
        1 => Just("1.".to_string()),
        1 => Just(".5".to_string()),
        1 => Just("NaN".to_string()),
        1 => Just("inf".to_string()),
    ];
    (shapes, lit).prop_map(|(s, l)| format!("{}:{}", s, l))
}

pub fn long_strategy() -> impl Strategy<Value = String> {
    prop_oneof![
        (1usize..100_000, "\\PC").prop_map(|(n, c)| c.repeat(n.min(100_000 / c.len().max(1)))),
        (1usize..10_000).prop_map(|n| ",".repeat(n)),
        (1usize..2_000, list_strategy(1)).prop_map(|(n, l)| vec![list_text(&l); n].join(",")),
        (1usize..400, list_strategy(6)).prop_map(|(n, l)| vec![list_text(&l); n].join(" , ")),
        (1usize..50_000).prop_map(|n| format!("AA:0.{}", "3".repeat(n))),
        (1usize..50_000).prop_map(|n| format!("{}AA", " ".repeat(n))),
        // lengths around powers of two, in bytes, for tokens, weights and separators
        (prop_oneof![Just(255usize), Just(256usize), Just(257usize), Just(1023usize), Just(1024usize), Just(1025usize), Just(4095usize), Just(4096usize), Just(4097usize), Just(65535usize), Just(65536usize), Just(65537usize)], 0u8..5).prop_map(|(n, kind)| match kind {
            0 => format!("AA:0.{}", "5".repeat(n.saturating_sub(5))),
            1 => "A".repeat(n),
            2 => format!("{}KK", ",".repeat(n - 2)),
            3 => vec!["AKs"; n / 4 + 1].join(",")[..n.min((n / 4 + 1) * 4 - 1)].to_string(),
            _ => format!("{}\u{e9}", "2".repeat(n - 2)),
        }),
    ]
}

pub fn run(ctx: &mut Ctx, mode: Mode) {
    let tier = ctx.tier;
    match mode {
        Mode::Total => {
            ctx.rule = "strings: (1) every string of length 0-3 (thorough 0-4) over the 32-symbol alphabet ranks + 'shdco+-:.,01' + space + é (2 bytes) + € (3) + 😀 (4) + 'a','k','S' (wrong-case letters); (2) every string matching a token shape with arbitrary ranks - XY, XY+, XYk, XYk+, XY-ZW, XYk-ZWk', all 52x52 card-pair texts incl. both cards equal - without and with ':0.5', and the short shapes in every mix of upper- and lower-case letters; every single and double substitution of a notation character by a Unicode look-alike of its class (decimal digits of other scripts, full-width forms, Kelvin sign, long s, dashes, ...) in valid texts of every shape and weight form; every string made of a rank letter and two arbitrary printable ASCII characters (thorough: all 857,375 three-character printable strings); (3) proptest: valid notation with one or two characters inserted/replaced/deleted at any offset (multi-byte, NUL, combining, notation characters), comma lists mixing valid tokens with junk and the degenerate spans '22-AA','KAs+','2As+', arbitrary Unicode, weight literals, numbers in other notations after the colon (percent, exponent, sign, suffix, fraction, radix prefix; values inside and outside [0,1]), over-long inputs (up to 10^5 characters, 10^4 commas, 2,000 tokens). Oracle under catch_unwind: parse as Rank, Suit, Card, CardPair, HandRangeToken, HandRange returns; every Ok value is formatted (plain and through eleven width/alignment/fill/precision specifications), expanded, decomposed (rank_pairs, orphan_card_pairs) and drained through FlopExhaustiveEvaluator (alone on the first positions and to the very end - the whole enumeration for ranges of <= 24 combos, the last turn rows otherwise -, beside a fixed player, twice, at seats 0 and 2 around a disjoint player, as a full table of ten and of six copies - construction, size_hint() and an empty collect only; size_hint() is also asked before, during and after every drain -, and completely on a monotone and on a paired low flop for ranges of <= 60 combos). Non-trivial = accepted by some parser, or contains a multi-byte character, or has a token shape; distinct by string.".into();
        }
        Mode::Content => {
            ctx.rule = "same string generators as C09 plus every weight literal [01](.d{1,3})? on one token of each shape and generated literals (1.0..01, 0.99.., 40-digit fractions, exponents, NaN/inf). Oracle: every combo of every Ok card pair / token / range has two different cards and a weight w with 0 <= w <= 1; evaluator runs over the parsed ranges (alone, beside a fixed player, the range twice) yield only showdowns with probability in [0,1] and 5+2n pairwise distinct cards. Panics are C09's subject and skipped here. Non-trivial = the string parses to a card pair, token or non-empty range; distinct by string.".into();
        }
    }
    ctx.assumptions = vec!["the evaluator hand-off uses a fixed flop and a window of the first 1-3 positions (cost bound)".into()];
    let f = check_mode(mode);
    let brief = |s: &String| json!(esc(s));
    // (1) short strings
    let maxlen = tier.pick(3u32, 4u32);
    let mut offs = vec![0u64];
    for l in 0..=maxlen {
        offs.push(offs.last().unwrap() + 32u64.pow(l));
    }
    let n = *offs.last().unwrap();
    ctx.run_enum_brief(
        StreamCfg::new("short_strings", CLASSES, n),
        n,
        true,
        |i| {
            let l = (0..=maxlen).find(|l| i < offs[*l as usize + 1]).unwrap();
            short_string(l, i - offs[l as usize])
        },
        &f,
        brief,
    );
    // (2) shape strings
    let shapes = shape_strings(tier == Tier::Thorough);
    let n = shapes.len() as u64;
    ctx.run_enum_brief(StreamCfg::new("shape_strings", CLASSES, n), n, true, |i| shapes[i as usize].clone(), &f, brief);
    // a rank letter followed by any two printable ASCII characters (thorough: all three
    // characters arbitrary): shorthand-like strings outside the notation alphabet
    let printable: Vec<char> = (32u8..127).map(|b| b as char).collect();
    let n3 = if tier == Tier::Thorough { 95u64 * 95 * 95 } else { 13 * 95 * 95 };
    ctx.run_enum_brief(
        StreamCfg::new("printable_ascii_3", CLASSES, n3),
        n3,
        true,
        |i| {
            let (a, b, c) = ((i / (95 * 95)) as usize, ((i / 95) % 95) as usize, (i % 95) as usize);
            let first = if tier == Tier::Thorough { printable[a] } else { RANK_CH[a] };
            [first, printable[b], printable[c]].iter().collect::<String>()
        },
        &f,
        brief,
    );
    let look = lookalike_strings();
    let n = look.len() as u64;
    ctx.run_enum_brief(StreamCfg::new("unicode_lookalikes", CLASSES, n), n, true, |i| look[i as usize].clone(), &f, brief);
    if mode == Mode::Content {
        let w = weight_literal_strings();
        let n = w.len() as u64;
        ctx.run_enum_brief(StreamCfg::new("weight_literals", CLASSES, n), n, true, |i| w[i as usize].clone(), &f, brief);
    }
    // numbers in other notations after the colon (both properties: C09 wants no panic, C10 a
    // weight in [0,1] whenever such a text is accepted)
    let dw = decorated_weight_strings();
    let n = dw.len() as u64;
    ctx.run_enum_brief(StreamCfg::new("decorated_weights", CLASSES, n), n, true, |i| dw[i as usize].clone(), &f, brief);
    // (3) proptest streams
    let c = tier.pick(12_000, 200_000);
    ctx.run_random_brief(StreamCfg::new("mutated_notation", CLASSES, c).shrink(500), mutated_strategy, &f, brief);
    ctx.require_class("mutated_notation", "multibyte", c / 10);
    ctx.require_class("mutated_notation", "range_nonempty", c / 4);
    let c = tier.pick(8_000, 120_000);
    ctx.run_random_brief(StreamCfg::new("mixed_lists", CLASSES, c).shrink(500), mixed_list_strategy, &f, brief);
    let c = tier.pick(6_000, 100_000);
    ctx.run_random_brief(StreamCfg::new("weight_literals_generated", CLASSES, c).shrink(500), weight_strategy, &f, brief);
    let c = tier.pick(6_000, 100_000);
    ctx.run_random_brief(StreamCfg::new("arbitrary_unicode", CLASSES, c).shrink(500), || prop_oneof!["\\PC{0,12}", ".{0,40}", "[AKQ2-9shdc:+,. -]{0,14}"], &f, brief);
    let c = tier.pick(96, 1_500);
    ctx.run_random_brief(StreamCfg::new("over_long", CLASSES, c).shrink(60), long_strategy, &f, brief);
    ctx.require_class("over_long", "longer_than_1000_bytes", c / 2);
    ctx.extra.insert("exhaustive_over".into(), json!(format!("all strings of length <= {} over the 32-symbol alphabet; all token-shape strings with arbitrary ranks", maxlen)));
    if tier == Tier::Thorough && !ctx.failed() {
        crate::fuzzrun::campaign(ctx, "fz_parse", 12_000, 16, 96);
    }
}

pub fn replay(mode: Mode, _stream: &str, path: &str, case: &Value) -> i32 {
    replay_case::<String>(if mode == Mode::Total { "C09" } else { "C10" }, path, case, check_mode(mode))
}
