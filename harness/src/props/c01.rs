//! C01 — 7-card evaluation = true strength class of the best 5-card hand, in any order;
//! index order = poker order, equal index = tie.
//! C07 — reported category = category of the best five-card hand.
//! Both share the generators (mode selects the oracle).

use crate::cards::*;
use crate::hand5::*;
use crate::runner::*;
use crate::vensure;
use espada::evaluator::MadeHand;
use proptest::prelude::*;
use serde::{Deserialize, Serialize};
use serde_json::{json, Value};
use std::collections::BTreeMap;
use std::sync::atomic::{AtomicBool, AtomicU64, Ordering};
use std::sync::Mutex;

#[derive(Clone, Copy, PartialEq, Eq, Debug)]
pub enum Mode {
    Index,
    Category,
}
impl Mode {
    fn prop(&self) -> &'static str {
        match self {
            Mode::Index => "C01",
            Mode::Category => "C07",
        }
    }
}

#[inline]
pub fn eval(c: &[Cid; 7]) -> MadeHand {
    MadeHand::from([e_card(c[0]), e_card(c[1]), e_card(c[2]), e_card(c[3]), e_card(c[4]), e_card(c[5]), e_card(c[6])])
}

fn flush_suit(set: &[Cid; 7]) -> Option<u8> {
    let mut n = [0u8; 4];
    for c in set {
        n[(c & 3) as usize] += 1;
    }
    (0..4u8).find(|s| n[*s as usize] >= 5)
}

/// Presentation orders tried for one set: ascending, descending, suited cards first, suited cards
/// last, four suited - offsuit - rest (the last three only when a suit has >= 5 cards), plus
/// `shuffles` permutations derived from the set itself.  Pure function of the set.
pub fn orders(set: &[Cid; 7], shuffles: usize, out: &mut Vec<[Cid; 7]>) {
    out.clear();
    let mut asc = *set;
    asc.sort_unstable();
    out.push(asc);
    let mut desc = asc;
    desc.reverse();
    out.push(desc);
    if let Some(s) = flush_suit(&asc) {
        let suited: Vec<Cid> = asc.iter().copied().filter(|c| c & 3 == s).collect();
        let other: Vec<Cid> = asc.iter().copied().filter(|c| c & 3 != s).collect();
        let mk = |parts: &[&[Cid]]| {
            let mut o = [0u8; 7];
            let mut i = 0;
            for p in parts {
                for c in *p {
                    o[i] = *c;
                    i += 1;
                }
            }
            o
        };
        out.push(mk(&[&suited, &other]));
        out.push(mk(&[&other, &suited]));
        out.push(mk(&[&suited[..4], &other, &suited[4..]]));
        let rs: Vec<Cid> = suited.iter().rev().copied().collect();
        out.push(mk(&[&rs[..4], &other, &rs[4..]]));
        out.push(mk(&[&rs, &other]));
    }
    let mut x = mix64(asc.iter().fold(0u64, |a, c| a * 53 + *c as u64 + 1));
    for _ in 0..shuffles {
        let mut o = asc;
        for i in (1..7).rev() {
            x = mix64(x);
            let j = (x % (i as u64 + 1)) as usize;
            o.swap(i, j);
        }
        out.push(o);
    }
}

fn fail_index(mode: Mode, order: &[Cid; 7], got: u16, want: u16) -> Fail {
    let t = table();
    let _ = mode;
    Fail::new(
        format!("index:{}", cnames(order)),
        format!(
            "cards {} (in this order) evaluate to power index {}, the best five-card hand is {}",
            cnames(order),
            got,
            t.describe(want)
        ),
    )
}

/// One set, several orders.  Returns the reference class.
pub fn check_set(mode: Mode, set: &[Cid; 7], shuffles: usize) -> Result<u16, Fail> {
    let t = table();
    {
        let mut s = *set;
        s.sort_unstable();
        vensure!(s.windows(2).all(|w| w[0] < w[1]) && s[6] < 52, "bad-case", "not seven distinct cards: {:?}", set);
    }
    let want = t.class7(set);
    let mut os = Vec::with_capacity(8 + shuffles);
    match mode {
        Mode::Index => {
            orders(set, shuffles, &mut os);
            for o in &os {
                let got = eval(o).power_index();
                if got != want {
                    return Err(fail_index(mode, o, got, want));
                }
            }
        }
        Mode::Category => {
            orders(set, 0, &mut os);
            let cat = CAT_NAMES[t.cat_of_class(want) as usize];
            for o in os.iter().take(2) {
                let h = eval(o);
                let got = format!("{:?}", h.hand_type());
                if got != cat {
                    return Err(Fail::new(
                        format!("category:{}:{}", want, got),
                        format!(
                            "cards {} report category {} (power index {}), the best five-card hand is {}",
                            cnames(o),
                            got,
                            h.power_index(),
                            t.describe(want)
                        ),
                    ));
                }
            }
        }
    }
    Ok(want)
}

fn class_bits(t: &ClassTable, class: u16, set: &[Cid; 7]) -> u64 {
    let cat = t.cat_of_class(class) as u64;
    let mut b = 1u64 << cat;
    if flush_suit(set).is_some() {
        b |= 1 << 9;
    }
    b
}
const SET_CLASSES: &[&str] = &["HighCard", "Pair", "TwoPair", "Trips", "Straight", "Flush", "FullHouse", "Quads", "StraightFlush", "five_or_more_suited"];

fn set_fp(set: &[Cid; 7]) -> u64 {
    let mut s = *set;
    s.sort_unstable();
    s.iter().fold(0u64, |a, c| a << 6 | *c as u64)
}

pub fn check_set_case(mode: Mode, shuffles: usize) -> impl Fn(&Vec<u8>) -> CheckResult + Sync {
    move |v: &Vec<u8>| {
        vensure!(v.len() == 7, "bad-case", "need 7 cards");
        let set: [Cid; 7] = [v[0], v[1], v[2], v[3], v[4], v[5], v[6]];
        let class = check_set(mode, &set, shuffles)?;
        Ok(Outcome::new(true, set_fp(&set), class_bits(table(), class, &set)))
    }
}

// ---------------------------------------------------------------------------------------------
// generators

/// all 49,205 rank multisets of 7 cards (count per rank <= 4)
pub fn rank_multisets() -> Vec<[u8; 13]> {
    fn rec(i: usize, left: u8, cur: &mut [u8; 13], out: &mut Vec<[u8; 13]>) {
        if i == 13 {
            if left == 0 {
                out.push(*cur);
            }
            return;
        }
        for k in 0..=left.min(4) {
            cur[i] = k;
            rec(i + 1, left - k, cur, out);
        }
        cur[i] = 0;
    }
    let mut out = vec![];
    rec(0, 7, &mut [0u8; 13], &mut out);
    assert_eq!(out.len(), 49205);
    out
}

/// flush-free suit layouts for a rank multiset; layout 0 = round robin, 1 = rotated round robin,
/// 2 = as many cards as possible (<= 4) in one suit.
pub fn lay_out(ms: &[u8; 13], layout: u8) -> [Cid; 7] {
    let mut out = [0u8; 7];
    let mut n = 0usize;
    if layout < 2 {
        let mut i = if layout == 0 { 0 } else { 2 };
        for r in 0..13u8 {
            for _ in 0..ms[r as usize] {
                out[n] = r * 4 + (i % 4) as u8;
                n += 1;
                i += 1;
            }
        }
    } else {
        // groups by size descending so that quads take the majority suit first
        let mut groups: Vec<u8> = (0..13u8).filter(|r| ms[*r as usize] > 0).collect();
        groups.sort_by_key(|r| std::cmp::Reverse(ms[*r as usize]));
        let mut major = 0;
        let mut rot = 0usize;
        for r in groups {
            let k = ms[r as usize];
            let mut used = [false; 4];
            let mut left = k;
            if major < 4 {
                out[n] = r * 4 + 3;
                used[3] = true;
                n += 1;
                major += 1;
                left -= 1;
            }
            while left > 0 {
                let s = rot % 3;
                rot += 1;
                if used[s] {
                    continue;
                }
                used[s] = true;
                out[n] = r * 4 + s as u8;
                n += 1;
                left -= 1;
            }
        }
        if flush_suit(&out).is_some() {
            return lay_out(ms, 0);
        }
    }
    debug_assert_eq!(n, 7);
    out
}

/// all 13-bit masks with 5, 6 or 7 bits (every reachable flush-table slot)
pub fn flush_masks() -> Vec<u16> {
    let v: Vec<u16> = (0u16..8192).filter(|m| (5..=7).contains(&m.count_ones())).collect();
    assert_eq!(v.len(), 4719);
    v
}

/// set with exactly the ranks of `mask` in suit `s`; the 0-2 other cards come from other suits,
/// chosen by `variant`.
pub fn flush_set(mask: u16, s: u8, variant: u64) -> [Cid; 7] {
    let mut out = [0u8; 7];
    let mut n = 0;
    for r in 0..13u8 {
        if mask >> r & 1 == 1 {
            out[n] = r * 4 + s;
            n += 1;
        }
    }
    let mut x = mix64(mask as u64 * 4 + s as u64 + variant.wrapping_mul(0x1234_5678_9abc));
    while n < 7 {
        x = mix64(x);
        let c = (x % 52) as u8;
        if c & 3 == s || out[..n].contains(&c) {
            continue;
        }
        out[n] = c;
        n += 1;
    }
    out
}

fn take(bytes: &[u8], i: &mut usize) -> u8 {
    let b = bytes[*i % bytes.len()];
    *i += 1;
    b
}

/// category-targeted construction: `kind` picks a shape, `bytes` are the generated choices.
pub fn targeted(kind: u8, bytes: &[u8]) -> [Cid; 7] {
    let mut cards: Vec<Cid> = vec![];
    let mut i = 0usize;
    let add = |cards: &mut Vec<Cid>, c: Cid| {
        if !cards.contains(&c) && cards.len() < 7 {
            cards.push(c);
        }
    };
    // value 2..14 -> rank index
    let ri = |v: u8| -> u8 { 14 - v };
    match kind % 10 {
        0 => {}
        1 => {
            // straight flush, high 5..=14
            let high = 5 + take(bytes, &mut i) % 10;
            let s = take(bytes, &mut i) % 4;
            for k in 0..5 {
                let v = if high == 5 && k == 4 { 14 } else { high - k };
                add(&mut cards, ri(v) * 4 + s);
            }
        }
        2 => {
            let r = take(bytes, &mut i) % 13;
            for s in 0..4 {
                add(&mut cards, r * 4 + s);
            }
        }
        3 => {
            let r = take(bytes, &mut i) % 13;
            let p = (r + 1 + take(bytes, &mut i) % 12) % 13;
            let skip = take(bytes, &mut i) % 4;
            for s in 0..4 {
                if s != skip {
                    add(&mut cards, r * 4 + s);
                }
            }
            let s1 = take(bytes, &mut i) % 4;
            add(&mut cards, p * 4 + s1);
            add(&mut cards, p * 4 + (s1 + 1 + take(bytes, &mut i) % 3) % 4);
        }
        4 => {
            // 5-7 suited cards
            let s = take(bytes, &mut i) % 4;
            let n = 5 + take(bytes, &mut i) % 3;
            let mut guard = 0;
            while cards.len() < n as usize && guard < 64 {
                let r = take(bytes, &mut i) % 13;
                add(&mut cards, r * 4 + s);
                guard += 1;
            }
            for r in 0..13 {
                if cards.len() >= n as usize {
                    break;
                }
                add(&mut cards, r * 4 + s);
            }
        }
        5 => {
            // straight with mixed suits, high 5..=14
            let high = 5 + take(bytes, &mut i) % 10;
            for k in 0..5 {
                let v = if high == 5 && k == 4 { 14 } else { high - k };
                add(&mut cards, ri(v) * 4 + take(bytes, &mut i) % 4);
            }
        }
        6 => {
            let r = take(bytes, &mut i) % 13;
            let skip = take(bytes, &mut i) % 4;
            for s in 0..4 {
                if s != skip {
                    add(&mut cards, r * 4 + s);
                }
            }
        }
        7 => {
            // two or three pairs
            let np = 2 + take(bytes, &mut i) % 2;
            let mut r = take(bytes, &mut i) % 13;
            for _ in 0..np {
                let s1 = take(bytes, &mut i) % 4;
                add(&mut cards, r * 4 + s1);
                add(&mut cards, r * 4 + (s1 + 1 + take(bytes, &mut i) % 3) % 4);
                r = (r + 1 + take(bytes, &mut i) % 12) % 13;
            }
        }
        8 => {
            let r = take(bytes, &mut i) % 13;
            let s1 = take(bytes, &mut i) % 4;
            add(&mut cards, r * 4 + s1);
            add(&mut cards, r * 4 + (s1 + 1 + take(bytes, &mut i) % 3) % 4);
        }
        _ => {
            // near misses: four to a flush and four to a straight
            let s = take(bytes, &mut i) % 4;
            let high = 5 + take(bytes, &mut i) % 10;
            for k in 0..4 {
                let v = if high == 5 && k == 3 { 14 } else { high - k };
                add(&mut cards, ri(v) * 4 + s);
            }
        }
    }
    // fill
    let mut guard = 0;
    while cards.len() < 7 {
        let b = take(bytes, &mut i) as usize + guard;
        let c = ((b * 7 + take(bytes, &mut i) as usize) % 52) as u8;
        add(&mut cards, c);
        guard += 1;
    }
    let mut out = [0u8; 7];
    out.copy_from_slice(&cards[..7]);
    out
}

pub fn set_strategy() -> impl Strategy<Value = Vec<u8>> {
    prop_oneof![
        2 => proptest::sample::subsequence((0..52u8).collect::<Vec<_>>(), 7),
        5 => (0u8..10, proptest::collection::vec(any::<u8>(), 40)).prop_map(|(k, b)| targeted(k, &b).to_vec()),
    ]
}

// ---------------------------------------------------------------------------------------------
// pairs: order of two hands = order of their classes

#[derive(Clone, Debug, Serialize, Deserialize)]
pub struct PairCase {
    pub a: Vec<u8>,
    pub b: Vec<u8>,
}

pub fn check_pair(c: &PairCase) -> CheckResult {
    vensure!(c.a.len() == 7 && c.b.len() == 7, "bad-case", "need two 7-card hands");
    let t = table();
    let a: [Cid; 7] = c.a.clone().try_into().unwrap();
    let b: [Cid; 7] = c.b.clone().try_into().unwrap();
    for h in [&a, &b] {
        let mut s = *h;
        s.sort_unstable();
        vensure!(s.windows(2).all(|w| w[0] < w[1]) && s[6] < 52, "bad-case", "not seven distinct cards: {:?}", h);
    }
    let (ka, kb) = (key7(&a), key7(&b));
    let (ia, ib) = (t.class_of_key(ka), t.class_of_key(kb));
    let (ha, hb) = (eval(&a), eval(&b));
    // poker order from the rules: larger key wins, equal key ties
    let poker = kb.cmp(&ka); // Less <=> a is stronger
    let nm = format!("{} vs {}", cnames(&a), cnames(&b));
    vensure!(ha.power_index() == ia && hb.power_index() == ib, format!("pair-index:{}", nm), "{}: indexes {} / {}, reference classes {} / {}", nm, ha.power_index(), hb.power_index(), ia, ib);
    vensure!((ha == hb) == (poker == std::cmp::Ordering::Equal), "pair-eq", "{}: hands are {} under poker rules but == gives {}", nm, if poker.is_eq() { "tied" } else { "not tied" }, ha == hb);
    vensure!((ha < hb) == poker.is_lt() && (ha > hb) == poker.is_gt() && (ha <= hb) == poker.is_le() && (ha >= hb) == poker.is_ge(), "pair-lt", "{}: poker order {:?} (Less = first hand wins) but comparison operators disagree", nm, poker);
    vensure!(ha.partial_cmp(&hb) == Some(poker), "pair-partial-cmp", "{}: partial_cmp = {:?}, poker order {:?}", nm, ha.partial_cmp(&hb), poker);
    vensure!(ha.cmp(&hb) == poker, "pair-cmp", "{}: cmp = {:?}, poker order {:?}", nm, ha.cmp(&hb), poker);
    vensure!(ha.power_index().cmp(&hb.power_index()) == poker, "pair-index-order", "{}: index order {:?}, poker order {:?}", nm, ha.power_index().cmp(&hb.power_index()), poker);
    let shared = a.iter().filter(|x| b.contains(x)).count();
    let mut cls = 0u64;
    if poker.is_eq() {
        cls |= 1;
    }
    if shared == 5 {
        cls |= 2;
    }
    if t.cat_of_class(ia) == t.cat_of_class(ib) {
        cls |= 4;
    }
    Ok(Outcome::new(true, fp_of(&(set_fp(&a), set_fp(&b))), cls))
}
const PAIR_CLASSES: &[&str] = &["tie", "shared_board", "same_category"];

pub fn pair_strategy() -> impl Strategy<Value = PairCase> {
    (0u8..10, proptest::collection::vec(any::<u8>(), 48), 0u8..4).prop_map(|(k, b, mode)| {
        let a = targeted(k, &b);
        if mode == 3 {
            // unrelated second hand
            let b2 = targeted(b[40] % 10, &b[8..]);
            return PairCase { a: a.to_vec(), b: b2.to_vec() };
        }
        // 5 of the 7 are the board: which two are player A's hole cards
        let i1 = (b[41] % 7) as usize;
        let i2 = (i1 + 1 + (b[42] % 6) as usize) % 7;
        let board: Vec<Cid> = (0..7).filter(|i| *i != i1 && *i != i2).map(|i| a[i]).collect();
        let hole_a = [a[i1], a[i2]];
        let mut hole_b: Vec<Cid> = vec![];
        if mode >= 1 {
            // mirror: same ranks in other suits where possible
            for (n, h) in hole_a.iter().enumerate() {
                for ds in 1..4u8 {
                    let c = (h & !3) | ((h & 3) + ds + b[43 + n]) % 4;
                    if !a.contains(&c) && !hole_b.contains(&c) {
                        hole_b.push(c);
                        break;
                    }
                }
            }
        }
        let mut j = 44;
        while hole_b.len() < 2 {
            let c = ((b[j % 48] as usize * 5 + j) % 52) as u8;
            j += 1;
            if !a.contains(&c) && !hole_b.contains(&c) {
                hole_b.push(c);
            }
        }
        let mut ha = board.clone();
        ha.extend_from_slice(&hole_a);
        let mut hb = board;
        hb.extend_from_slice(&hole_b);
        PairCase { a: ha, b: hb }
    })
}

// ---------------------------------------------------------------------------------------------
// all 5,040 orders of one set

pub fn check_all_orders(v: &Vec<u8>) -> CheckResult {
    vensure!(v.len() == 7, "bad-case", "need 7 cards");
    let t = table();
    let mut a: [Cid; 7] = v.clone().try_into().unwrap();
    a.sort_unstable();
    vensure!(a.windows(2).all(|w| w[0] < w[1]) && a[6] < 52, "bad-case", "not seven distinct cards");
    let want = t.class7(&a);
    // Heap's algorithm
    let mut c = [0usize; 7];
    let mut n = 1u32;
    let got = eval(&a).power_index();
    if got != want {
        return Err(fail_index(Mode::Index, &a, got, want));
    }
    let mut i = 0;
    while i < 7 {
        if c[i] < i {
            if i % 2 == 0 {
                a.swap(0, i);
            } else {
                a.swap(c[i], i);
            }
            n += 1;
            let got = eval(&a).power_index();
            if got != want {
                return Err(fail_index(Mode::Index, &a, got, want));
            }
            c[i] += 1;
            i = 0;
        } else {
            c[i] = 0;
            i += 1;
        }
    }
    vensure!(n == 5040, "harness", "permutation count {}", n);
    Ok(Outcome::new(true, set_fp(&a), class_bits(t, want, &a)))
}

// ---------------------------------------------------------------------------------------------
// boundary cases for C07: strongest and weakest hand of each category, embedded in 7 cards

pub fn boundary_sets() -> Vec<(String, [Cid; 7])> {
    let t = table();
    let mut out = vec![];
    let mut first_of_cat = [0u16; 9];
    let mut last_of_cat = [0u16; 9];
    for class in 1..=7462u16 {
        let cat = t.cat_of_class(class) as usize;
        if first_of_cat[cat] == 0 {
            first_of_cat[cat] = class;
        }
        last_of_cat[cat] = class;
    }
    let embed = |class: u16, max: usize| -> Vec<[Cid; 7]> {
        let h = t.example[(class - 1) as usize];
        let mut found = vec![];
        for a in 0..52u8 {
            for b in (a + 1)..52u8 {
                if h.contains(&a) || h.contains(&b) {
                    continue;
                }
                let set = [h[0], h[1], h[2], h[3], h[4], a, b];
                if t.class7(&set) == class {
                    found.push(set);
                    if found.len() >= max {
                        return found;
                    }
                }
            }
        }
        found
    };
    for cat in 0..9 {
        // strongest / weakest class of the category that seven cards can produce (7-5-4-3-2
        // unsuited, for instance, cannot survive two more cards)
        let mut strongest = first_of_cat[cat];
        while embed(strongest, 1).is_empty() {
            strongest += 1;
        }
        let mut weakest = last_of_cat[cat];
        while embed(weakest, 1).is_empty() {
            weakest -= 1;
        }
        for (which, class) in [("strongest", strongest), ("weakest", weakest)] {
            for set in embed(class, 3) {
                out.push((format!("{} {} reachable from 7 cards (class {})", which, CAT_NAMES[cat], class), set));
            }
        }
    }
    out
}

// ---------------------------------------------------------------------------------------------
// C07 call histories: the category reported for a hand must not depend on which hand was asked
// about before (on the same thread).  One representative 7-card set per reachable power index;
// cases = (representative of the previous call, current index).

pub fn reachable_representatives() -> Vec<[Cid; 7]> {
    // one set per reference class, found by scanning rank multisets / flush masks (slot complete)
    let t = table();
    let mut rep: std::collections::BTreeMap<u16, [Cid; 7]> = std::collections::BTreeMap::new();
    for ms in rank_multisets() {
        for l in 0..3u8 {
            let s = lay_out(&ms, l);
            rep.entry(t.class7(&s)).or_insert(s);
        }
    }
    for m in flush_masks() {
        for su in 0..4u8 {
            let s = flush_set(m, su, 0);
            rep.entry(t.class7(&s)).or_insert(s);
        }
    }
    rep.into_values().collect()
}

pub fn check_history(c: &(Vec<u8>, Vec<u8>)) -> CheckResult {
    vensure!(c.0.len() == 7 && c.1.len() == 7, "bad-case", "need two 7-card sets");
    let t = table();
    let prev: [Cid; 7] = c.0.clone().try_into().unwrap();
    let cur: [Cid; 7] = c.1.clone().try_into().unwrap();
    let (wp, wc) = (t.class7(&prev), t.class7(&cur));
    let hp = eval(&prev);
    let hc = eval(&cur);
    // history: ask about `prev` first, then about `cur`
    let gp = format!("{:?}", hp.hand_type());
    let gc = format!("{:?}", hc.hand_type());
    let (ep, ec) = (CAT_NAMES[t.cat_of_class(wp) as usize], CAT_NAMES[t.cat_of_class(wc) as usize]);
    vensure!(gp == ep, format!("category:{}:{}", wp, gp), "cards {} report category {}, the best five-card hand is {}", cnames(&prev), gp, t.describe(wp));
    vensure!(
        gc == ec,
        format!("category-after-history:{}:{}", wc, gc),
        "cards {} report category {} when hand_type() was called for {} ({}) just before on the same thread; the best five-card hand is {}",
        cnames(&cur),
        gc,
        cnames(&prev),
        gp,
        t.describe(wc)
    );
    // and the answer for `cur` is stable when asked again
    let again = format!("{:?}", hc.hand_type());
    vensure!(again == ec, format!("category-second-call:{}:{}", wc, again), "cards {}: second hand_type() call reports {}", cnames(&cur), again);
    Ok(Outcome::new(true, fp_of(&(set_fp(&prev), set_fp(&cur))), 1u64 << t.cat_of_class(wc) | if t.cat_of_class(wp) != t.cat_of_class(wc) { 1 << 9 } else { 0 }))
}
/// Long call histories on one thread: forty hands a_0..a_39 are evaluated, then `fillers` other
/// hands, then for j = 0..39 a hand b_j related to a_j (a_j's cards in reverse order / one card
/// replaced / suits rotated / unrelated / the same ranks in flush-free suits), each once - all
/// forty related pairs are fillers + 40 calls apart, and the generator puts that distance at 256,
/// 65,536 or 2^24, plus or minus at most 2.  (Asking the same b repeatedly would not do: the first
/// answer refreshes whatever a cache holds.)
#[derive(Clone, Debug, Serialize, Deserialize)]
pub struct LongHistory {
    pub hands: Vec<(Vec<u8>, u8)>,
    pub fillers: u32,
}

pub fn related_hand(a: &[Cid; 7], variant: u8) -> [Cid; 7] {
    let mut b = *a;
    match variant % 5 {
        0 => b.reverse(),
        1 => {
            let mut c = (a[6] + 1 + variant / 4) % 52;
            while a.contains(&c) {
                c = (c + 1) % 52;
            }
            b[(variant / 4) as usize % 7] = c;
        }
        2 => {
            for x in b.iter_mut() {
                *x = (*x & !3) | ((*x & 3) + 1 + variant / 4 % 3) % 4;
            }
        }
        3 => {
            for (i, x) in b.iter_mut().enumerate() {
                *x = (a[i] + 13 + variant / 4) % 52;
            }
        }
        _ => {
            // the same ranks with suits dealt afresh so that no suit has five cards
            let mut sorted = *a;
            sorted.sort_unstable();
            let mut ordinal = 0u8;
            let mut same = 0u8;
            for i in 0..7 {
                if i > 0 && sorted[i] / 4 == sorted[i - 1] / 4 {
                    same += 1;
                } else {
                    if i > 0 {
                        ordinal += 1;
                    }
                    same = 0;
                }
                b[i] = (sorted[i] & !3) | (ordinal + same + variant / 5) % 4;
            }
        }
    }
    b
}

pub fn check_long_history(mode: Mode) -> impl Fn(&LongHistory) -> CheckResult {
    move |c: &LongHistory| {
        vensure!(!c.hands.is_empty() && c.hands.len() <= 64 && c.fillers <= 20_000_000, "bad-case", "history outside the domain");
        let t = table();
        let mut firsts: Vec<[Cid; 7]> = vec![];
        for (h, _) in &c.hands {
            vensure!(h.len() == 7, "bad-case", "need 7 cards");
            let a: [Cid; 7] = h.clone().try_into().unwrap();
            let mut seen = 0u64;
            for x in a {
                vensure!(x < 52 && seen >> x & 1 == 0, "bad-case", "cards not distinct");
                seen |= 1 << x;
            }
            firsts.push(a);
        }
        for a in &firsts {
            let ha = eval(a);
            std::hint::black_box(ha.power_index());
            if mode == Mode::Category {
                std::hint::black_box(ha.hand_type());
            }
        }
        // fillers: a fixed cycle of eight hands
        let fill: Vec<[Cid; 7]> = (0..8u8)
            .map(|j| {
                let mut f = [0u8; 7];
                for (i, x) in f.iter_mut().enumerate() {
                    *x = (j * 6 + i as u8 * 7 + 3) % 52;
                }
                f
            })
            .collect();
        for i in 0..c.fillers {
            let h = eval(&fill[i as usize & 7]);
            std::hint::black_box(h.power_index());
            if mode == Mode::Category {
                std::hint::black_box(h.hand_type());
            }
        }
        let mut cats = 0u64;
        for j in 0..firsts.len() {
            let a = &firsts[j];
            let b = related_hand(a, c.hands[j].1);
            let wb = t.class7(&b);
            cats |= 1 << t.cat_of_class(wb);
            let h = eval(&b);
            let dist = c.fillers as usize + firsts.len();
            match mode {
                Mode::Index => vensure!(h.power_index() == wb, format!("index-after-history:{}", cnames(&b)), "cards {} evaluate to index {} when {} was evaluated {} calls earlier on the thread; the best five-card hand is {} (index {})", cnames(&b), h.power_index(), cnames(a), dist, t.describe(wb), wb),
                Mode::Category => {
                    let g = format!("{:?}", h.hand_type());
                    let e = CAT_NAMES[t.cat_of_class(wb) as usize];
                    vensure!(g == e, format!("category-after-history:{}:{}", wb, g), "cards {} report category {} when {} was asked {} calls earlier on the thread; the best five-card hand is {}", cnames(&b), g, cnames(a), dist, t.describe(wb));
                }
            }
        }
        let cls = cats | if c.fillers >= 16_000_000 { 1 << 12 } else if c.fillers >= 60_000 { 1 << 11 } else { 1 << 10 };
        Ok(Outcome::new(true, fp_of(&format!("{:?}", c)), cls))
    }
}
const LONG_HISTORY_CLASSES: &[&str] = &["HighCard", "Pair", "TwoPair", "Trips", "Straight", "Flush", "FullHouse", "Quads", "StraightFlush", "-", "history_around_256_calls", "history_around_65536_calls", "history_around_2_24_calls"];

pub fn long_history_strategy() -> impl Strategy<Value = LongHistory> {
    (proptest::collection::vec((set_strategy(), any::<u8>()), 40), prop_oneof![4 => Just(256u32), 2 => Just(65_536u32), 1 => Just(16_777_216u32)], 0u32..5).prop_map(|(hands, base, off)| LongHistory { hands, fillers: base - 40 - 2 + off })
}

const HISTORY_CLASSES: &[&str] = &["HighCard", "Pair", "TwoPair", "Trips", "Straight", "Flush", "FullHouse", "Quads", "StraightFlush", "previous_call_other_category"];

// ---------------------------------------------------------------------------------------------
// full enumeration of all C(52,7) sets (thorough): hot loop run here, reported through the ctx

pub fn run_all_sets(ctx: &mut Ctx, mode: Mode, shuffles: usize) {
    if ctx.failed() {
        return;
    }
    let t0 = std::time::Instant::now();
    let t = table();
    // tasks = (c0, c1) prefixes
    let mut tasks: Vec<(u8, u8)> = vec![];
    for a in 0..46u8 {
        for b in (a + 1)..47u8 {
            tasks.push((a, b));
        }
    }
    let stride = (1.0 / env_scale()).round().max(1.0) as usize;
    if stride > 1 {
        tasks = tasks.into_iter().step_by(stride).collect();
    }
    let next = AtomicU64::new(0);
    let stop = AtomicBool::new(false);
    struct Acc {
        n: u64,
        cats: [u64; 9],
        flushy: u64,
        idx_seen: Vec<u64>, // bitset over power indexes seen (reference classes)
        fail: Option<(usize, [Cid; 7], Fail)>,
        samples: Vec<(usize, [Cid; 7], u16)>,
    }
    let accs: Mutex<Vec<Acc>> = Mutex::new(vec![]);
    std::thread::scope(|sc| {
        for _ in 0..NSHARDS {
            let (tasks, next, stop, accs) = (&tasks, &next, &stop, &accs);
            std::thread::Builder::new()
                .stack_size(WORKER_STACK)
                .spawn_scoped(sc, move || {
                    let mut acc = Acc { n: 0, cats: [0; 9], flushy: 0, idx_seen: vec![0u64; 7463 / 64 + 1], fail: None, samples: vec![] };
                    let mut os: Vec<[Cid; 7]> = Vec::with_capacity(16);
                    loop {
                        let ti = next.fetch_add(1, Ordering::Relaxed) as usize;
                        if ti >= tasks.len() || stop.load(Ordering::Relaxed) {
                            break;
                        }
                        let (a, b) = tasks[ti];
                        let mut first = true;
                        for c in (b + 1)..48 {
                            for d in (c + 1)..49 {
                                for e in (d + 1)..50 {
                                    for f in (e + 1)..51 {
                                        for g in (f + 1)..52 {
                                            let set = [a, b, c, d, e, f, g];
                                            let want = t.class7(&set);
                                            acc.n += 1;
                                            acc.cats[t.cat_of_class(want) as usize] += 1;
                                            acc.idx_seen[(want / 64) as usize] |= 1 << (want % 64);
                                            if first {
                                                acc.samples.push((ti, set, want));
                                                first = false;
                                            }
                                            let r = catch(|| -> Result<(), Fail> {
                                                match mode {
                                                    Mode::Index => {
                                                        orders(&set, shuffles, &mut os);
                                                        if os.len() > 2 + shuffles {
                                                            acc.flushy += 1;
                                                        }
                                                        for o in &os {
                                                            let got = eval(o).power_index();
                                                            if got != want {
                                                                return Err(fail_index(mode, o, got, want));
                                                            }
                                                        }
                                                        Ok(())
                                                    }
                                                    Mode::Category => check_set(mode, &set, 0).map(|_| ()),
                                                }
                                            });
                                            let r = match r {
                                                Ok(r) => r,
                                                Err(p) => Err(Fail::new(format!("panic@{}", p.rsplit(" at ").next().unwrap_or("?")), format!("evaluating {} panicked: {}", cnames(&set), p))),
                                            };
                                            if let Err(fl) = r {
                                                acc.fail = Some((ti, set, fl));
                                                stop.store(true, Ordering::Relaxed);
                                                accs.lock().unwrap().push(acc);
                                                return;
                                            }
                                        }
                                    }
                                }
                            }
                        }
                    }
                    accs.lock().unwrap().push(acc);
                })
                .unwrap();
        }
    });
    let accs = accs.into_inner().unwrap();
    let mut n = 0;
    let mut cats = [0u64; 9];
    let mut flushy = 0;
    let mut seen = vec![0u64; 7463 / 64 + 1];
    let mut fail: Option<(usize, [Cid; 7], Fail)> = None;
    let mut samples = vec![];
    for a in accs {
        n += a.n;
        for i in 0..9 {
            cats[i] += a.cats[i];
        }
        flushy += a.flushy;
        for (i, w) in a.idx_seen.iter().enumerate() {
            seen[i] |= w;
        }
        if let Some(f) = a.fail {
            match &fail {
                Some(g) if g.0 <= f.0 => {}
                _ => fail = Some(f),
            }
        }
        samples.extend(a.samples);
    }
    samples.sort_by_key(|s| s.0);
    let distinct_idx: u32 = seen.iter().map(|w| w.count_ones()).sum();
    let mut classes = BTreeMap::new();
    for i in 0..9 {
        classes.insert(CAT_NAMES[i].to_string(), cats[i]);
    }
    classes.insert("five_or_more_suited".into(), flushy);
    classes.insert("distinct_reference_classes_seen".into(), distinct_idx as u64);
    let complete = fail.is_none();
    let pick: Vec<usize> = if samples.len() > 5 { vec![0, 1, samples.len() / 2, samples.len() - 2, samples.len() - 1] } else { (0..samples.len()).collect() };
    let sv: Vec<Value> = pick.iter().map(|i| json!({"set": cnames(&samples[*i].1), "reference_class": samples[*i].2})).collect();
    ctx.extra.insert("all_sets_distinct_power_indexes".into(), json!(distinct_idx));
    if complete && stride == 1 && (n != 133_784_560 || distinct_idx != 4824) {
        ctx.unhealthy.push(format!("full enumeration covered {} sets / {} classes, expected 133784560 / 4824", n, distinct_idx));
    }
    ctx.record_stream(
        "all_sets",
        "enumeration",
        n,
        n,
        complete && stride == 1,
        classes,
        sv,
        t0.elapsed().as_secs_f64(),
        fail.map(|(_, set, f)| (json!(set.to_vec()), f)),
    );
    let _ = mode.prop();
}

// ---------------------------------------------------------------------------------------------

pub fn run(ctx: &mut Ctx, mode: Mode) {
    let tier = ctx.tier;
    let _ = table();
    let brief = |v: &Vec<u8>| json!(cnames(v));
    match mode {
        Mode::Index => {
            ctx.rule = "sets: every 7-card rank multiset (all 49,205 no-flush table slots) in 3 flush-free suit layouts, every 5/6/7-bit suit mask (all 4,719 flush slots) in each suit with 2 fills, proptest category-targeted + uniform sets; each set is evaluated ascending, descending, (if a suit has >=5 cards) suited-first / suited-last / 4 suited-offsuit-rest orders and seeded shuffles; a sample of sets in all 5,040 orders; pairs of hands sharing a board (mirrored hole cards for ties) compared with ==,<,partial_cmp,cmp; all C(52,7) = 133,784,560 sets in both tiers (1 seeded shuffle quick, 12 thorough); long call histories on one thread (forty hands, then d-40 other hands, then one related hand for each of the forty - reversed order, one card replaced, suits rotated, same ranks in flush-free suits - all forty related pairs exactly d calls apart, d within 2 of 256 / 65,536 / 2^24). Oracle: class of the best of the 21 five-card subsets under a from-the-rules classifier (self-checked: 7,462 classes, per-category counts). Every case is non-trivial; distinct = distinct sets (pairs: distinct pairs).".into();
        }
        Mode::Category => {
            ctx.rule = "same set generators as C01 (slot-complete enumeration, flush masks, targeted random sets, all C(52,7) sets) plus the strongest and weakest hand of every category embedded in 7 cards; call histories: for one representative of each of the 4,824 reachable power indexes, hand_type() right after a hand_type() call for the strongest / weakest reachable hand of every category (every (previous category boundary, current index) pair); long histories (forty hands, d-40 other hands, then one related hand for each of the forty, d within 2 of 256 / 65,536 / 2^24); oracle: Debug name of hand_type() == category of the reference class of the best five-card hand. Every case non-trivial; distinct = distinct sets.".into();
        }
    }
    ctx.assumptions = vec![
        "reference = best of the 21 five-card subsets under the harness's own classifier (key5, cross-checked against a counting implementation on all 2,598,960 hands at start-up)".into(),
        "orders: all 7! orders only for a sample of sets; every set in the adversarial orders for the flush-suit scan".into(),
    ];
    let shuffles = tier.pick(3, 1);

    // (a) every rank multiset x layouts
    let ms = rank_multisets();
    let n = ms.len() as u64 * 3;
    ctx.run_enum_brief(
        StreamCfg::new("rank_multisets", SET_CLASSES, n),
        n,
        true,
        |i| lay_out(&ms[(i / 3) as usize], (i % 3) as u8).to_vec(),
        check_set_case(mode, shuffles),
        brief,
    );
    // (b) every flush mask x suit x 2 fills
    let fm = flush_masks();
    let n = fm.len() as u64 * 8;
    ctx.run_enum_brief(
        StreamCfg::new("flush_masks", SET_CLASSES, n),
        n,
        true,
        |i| flush_set(fm[(i / 8) as usize], (i % 4) as u8, (i / 4) % 2).to_vec(),
        check_set_case(mode, shuffles),
        brief,
    );
    if mode == Mode::Category {
        let b = boundary_sets();
        let n = b.len() as u64;
        ctx.run_enum_brief(
            StreamCfg::new("category_boundaries", SET_CLASSES, n),
            n,
            true,
            |i| b[i as usize].1.to_vec(),
            check_set_case(mode, 0),
            |v| {
                let set: [Cid; 7] = v.clone().try_into().unwrap();
                json!({"cards": cnames(v), "best": table().describe(table().class7(&set))})
            },
        );
        ctx.extra.insert("boundary_cases".into(), json!(b.iter().map(|(n, s)| format!("{}: {}", n, cnames(s))).collect::<Vec<_>>()));
        // call histories: every reachable index after a call for a hand of every category
        // (strongest and weakest reachable class of each category as the previous hand)
        let reps = reachable_representatives();
        let prevs: Vec<[Cid; 7]> = b.iter().map(|x| x.1).collect();
        let n = (reps.len() * prevs.len()) as u64;
        ctx.extra.insert("history_representatives".into(), json!(reps.len()));
        if reps.len() != 4824 {
            ctx.unhealthy.push(format!("{} representatives for the 4,824 reachable power indexes", reps.len()));
        }
        ctx.run_enum_brief(
            StreamCfg::new("call_histories", HISTORY_CLASSES, n),
            n,
            true,
            |i| (prevs[i as usize % prevs.len()].to_vec(), reps[i as usize / prevs.len()].to_vec()),
            check_history,
            |c| json!(format!("hand_type({}) then hand_type({})", cnames(&c.0), cnames(&c.1))),
        );
    }
    // (c) random / targeted sets
    let cases = tier.pick(3_000_000, 20_000_000);
    ctx.run_random_brief(StreamCfg::new("targeted_sets", SET_CLASSES, cases), set_strategy, check_set_case(mode, shuffles), brief);
    for cat in ["StraightFlush", "Quads", "FullHouse", "Flush", "Straight", "Trips", "TwoPair", "Pair", "HighCard"] {
        ctx.require_class("targeted_sets", cat, cases / 200);
    }
    if mode == Mode::Index {
        // (d) all orders for a sample
        let cases = tier.pick(20_000, 2_000_000);
        ctx.run_random_brief(StreamCfg::new("all_5040_orders", SET_CLASSES, cases).shrink(300), set_strategy, check_all_orders, brief);
        ctx.require_class("all_5040_orders", "five_or_more_suited", cases / 50);
        // (e) pairs
        let cases = tier.pick(2_000_000, 20_000_000);
        ctx.run_random_brief(StreamCfg::new("hand_pairs", PAIR_CLASSES, cases), pair_strategy, check_pair, |c| json!(format!("{} vs {}", cnames(&c.a), cnames(&c.b))));
        ctx.require_class("hand_pairs", "tie", cases / 100);
        ctx.require_class("hand_pairs", "shared_board", cases / 4);
    }
    // long call histories on one thread (wrap points of 8-, 16- and 24-bit call counters)
    let cases = tier.pick(160, 2_000);
    ctx.run_random_brief(StreamCfg::new("long_call_histories", LONG_HISTORY_CLASSES, cases).shrink(20), long_history_strategy, check_long_history(mode), |c| json!({"first_of_40": cnames(&c.hands[0].0), "fillers": c.fillers}));
    // (f) everything
    run_all_sets(ctx, mode, tier.pick(1, 12));
    ctx.exhaustive = !ctx.failed() && env_scale() >= 1.0;
    ctx.extra.insert("exhaustive_over".into(), json!("all C(52,7) = 133,784,560 seven-card sets (stream all_sets); presentation orders are sampled: ascending, descending, the flush-scan adversarial orders and seeded shuffles for every set, all 5,040 orders for the sets of stream all_5040_orders"));
}

pub fn replay(mode: Mode, stream: &str, path: &str, case: &Value) -> i32 {
    let prop = mode.prop();
    match stream {
        "hand_pairs" => replay_case::<PairCase>(prop, path, case, check_pair),
        "call_histories" => replay_case::<(Vec<u8>, Vec<u8>)>(prop, path, case, check_history),
        "all_5040_orders" => replay_case::<Vec<u8>>(prop, path, case, check_all_orders),
        "long_call_histories" => replay_case::<LongHistory>(prop, path, case, check_long_history(mode)),
        _ => replay_case::<Vec<u8>>(prop, path, case, check_set_case(mode, 3)),
    }
}

