//! C11 — equities are invariant under suit relabelling and follow player reordering; the winners'
//! shares of 1/winner-count add up to exactly one pot.

use crate::cards::*;
use crate::evalmodel::*;
use crate::hand5::table;
use crate::runner::*;
use crate::vensure;
use proptest::prelude::*;
use serde::{Deserialize, Serialize};
use serde_json::{json, Value};

#[derive(Clone, Debug, Serialize, Deserialize)]
pub struct Case {
    pub cfg: Config,
    /// suit s is relabelled sigma[s]
    pub sigma: [u8; 4],
    /// new seat i holds the range of old seat pi[i]
    pub pi: Vec<usize>,
}

pub const PERMS4: [[u8; 4]; 24] = {
    let mut out = [[0u8; 4]; 24];
    let mut n = 0;
    let mut a = 0;
    while a < 4 {
        let mut b = 0;
        while b < 4 {
            let mut c = 0;
            while c < 4 {
                let mut d = 0;
                while d < 4 {
                    if a != b && a != c && a != d && b != c && b != d && c != d {
                        out[n] = [a as u8, b as u8, c as u8, d as u8];
                        n += 1;
                    }
                    d += 1;
                }
                c += 1;
            }
            b += 1;
        }
        a += 1;
    }
    out
};

fn relabel_card(c: u8, sigma: &[u8; 4]) -> u8 {
    (c & !3) | sigma[(c & 3) as usize]
}
pub fn relabel(cfg: &Config, sigma: &[u8; 4]) -> Config {
    Config {
        flop: [relabel_card(cfg.flop[0], sigma), relabel_card(cfg.flop[1], sigma), relabel_card(cfg.flop[2], sigma)],
        ranges: cfg
            .ranges
            .iter()
            .map(|r| RangeSpec {
                combos: r
                    .combos
                    .iter()
                    .map(|c| {
                        let p = norm_pair(relabel_card(c.0, sigma), relabel_card(c.1, sigma));
                        (p.0, p.1, c.2)
                    })
                    .collect(),
            })
            .collect(),
        scope: None,
    }
}
pub fn permute(cfg: &Config, pi: &[usize]) -> Config {
    Config { flop: cfg.flop, ranges: pi.iter().map(|i| cfg.ranges[*i].clone()).collect(), scope: None }
}

#[derive(Clone, Debug, PartialEq, Eq, Default)]
pub struct Tally {
    /// wins[p][k] = showdowns player p wins with winner_len == k
    pub wins: Vec<Vec<u64>>,
    pub showdowns: u64,
    pub flush_hands_in_moved_suit: u64,
    pub ties: u64,
}

fn add_showdown(t: &mut Tally, s: &espada::evaluator::Showdown, n: usize, sigma: &[u8; 4]) -> Result<(), Fail> {
    let tb = table();
    let wl = s.winner_len() as usize;
    let mut flagged = 0usize;
    for (i, p) in s.players().iter().enumerate() {
        if p.is_winner() {
            flagged += 1;
            if wl <= n {
                t.wins[i][wl] += 1;
            }
        }
        let idx = p.hand().power_index();
        if (1..=7462).contains(&idx) {
            let cat = tb.cat_of_class(idx);
            if cat == 5 || cat == 8 {
                let mut cnt = [0u8; 4];
                for c in p.cards().iter() {
                    cnt[suit_ix(c.suit()) as usize] += 1;
                }
                if let Some(fs) = (0..4).find(|x| cnt[*x] >= 5) {
                    if sigma[fs] as usize != fs {
                        t.flush_hands_in_moved_suit += 1;
                    }
                }
            }
        }
    }
    // the winners' shares of 1/winner_len add up to exactly one pot (rational arithmetic):
    // flagged * (1/winner_len) == 1  <=>  flagged == winner_len and winner_len >= 1
    if flagged != wl || wl == 0 {
        return Err(Fail::new(
            "pot-shares",
            format!("showdown board {:?}: {} players flagged as winners, winner_len() = {}: the shares 1/winner_len do not add up to one pot", s.board(), flagged, wl),
        ));
    }
    if wl >= 2 {
        t.ties += 1;
    }
    t.showdowns += 1;
    Ok(())
}

pub fn tally(cfg: &Config, sigma: &[u8; 4]) -> Result<Tally, Fail> {
    let n = cfg.ranges.len();
    let mut t = Tally { wins: vec![vec![0u64; n + 1]; n], ..Default::default() };
    for s in cfg.evaluator() {
        add_showdown(&mut t, &s, n, sigma)?;
    }
    Ok(t)
}

/// The same tallies with all the runs alive at once on this thread, their next() calls taken in
/// turn (a caller comparing spots side by side: zip, nested loops).
pub fn tally_side_by_side(jobs: &[(Config, [u8; 4])]) -> Result<Vec<Tally>, Fail> {
    let mut its: Vec<_> = jobs.iter().map(|(c, _)| Some(c.evaluator().into_iter())).collect();
    let mut ts: Vec<Tally> = jobs.iter().map(|(c, _)| Tally { wins: vec![vec![0u64; c.ranges.len() + 1]; c.ranges.len()], ..Default::default() }).collect();
    let mut live = its.len();
    let mut round = 0usize;
    while live > 0 {
        for j in 0..its.len() {
            // every third round the second run takes two steps, so that the runs drift apart
            let steps = if round % 3 == 2 && j == 1 { 2 } else { 1 };
            for _ in 0..steps {
                let Some(it) = its[j].as_mut() else { break };
                match it.next() {
                    Some(s) => add_showdown(&mut ts[j], &s, jobs[j].0.ranges.len(), &jobs[j].1)?,
                    None => {
                        its[j] = None;
                        live -= 1;
                    }
                }
            }
        }
        round += 1;
    }
    Ok(ts)
}

pub fn check(c: &Case) -> CheckResult {
    let n = c.cfg.ranges.len();
    vensure!(c.cfg.valid() && c.cfg.scope.is_none() && n >= 1 && c.cfg.ranges.iter().all(|r| !r.combos.is_empty()), "bad-case", "invalid configuration");
    {
        let mut s = c.sigma;
        s.sort_unstable();
        let mut p = c.pi.clone();
        p.sort_unstable();
        vensure!(s == [0, 1, 2, 3] && p == (0..n).collect::<Vec<_>>(), "bad-case", "sigma / pi are not permutations");
    }
    // in half of the cases the three runs are alive side by side on this thread, in the other
    // half one after the other
    let side_by_side = fp_of(&format!("{:?}", c)) % 2 == 0;
    let (base, rel, per) = if side_by_side {
        let mut v = tally_side_by_side(&[(c.cfg.clone(), c.sigma), (relabel(&c.cfg, &c.sigma), [0, 1, 2, 3]), (permute(&c.cfg, &c.pi), [0, 1, 2, 3])])?;
        let per = v.pop().unwrap();
        let rel = v.pop().unwrap();
        (v.pop().unwrap(), rel, per)
    } else {
        (tally(&c.cfg, &c.sigma)?, tally(&relabel(&c.cfg, &c.sigma), &[0, 1, 2, 3])?, tally(&permute(&c.cfg, &c.pi), &[0, 1, 2, 3])?)
    };
    let sname = |s: &[u8; 4]| (0..4).map(|i| format!("{}->{}", SUIT_CH[i], SUIT_CH[s[i] as usize])).collect::<Vec<_>>().join(" ");
    vensure!(
        rel.wins == base.wins && rel.showdowns == base.showdowns,
        "suit-relabel",
        "relabelling suits ({}) changes the tallies: flop {} ranges {:?}: wins[player][k-way] {:?} ({} showdowns) before, {:?} ({} showdowns) after",
        sname(&c.sigma),
        cnames(&c.cfg.flop),
        c.cfg.ranges.iter().map(|r| r.brief()).collect::<Vec<_>>(),
        base.wins,
        base.showdowns,
        rel.wins,
        rel.showdowns
    );
    let expect: Vec<Vec<u64>> = c.pi.iter().map(|i| base.wins[*i].clone()).collect();
    vensure!(
        per.wins == expect && per.showdowns == base.showdowns,
        "player-permutation",
        "listing the players in order {:?} does not permute the tallies: flop {} ranges {:?}: expected {:?}, got {:?} (showdowns {} vs {})",
        c.pi,
        cnames(&c.cfg.flop),
        c.cfg.ranges.iter().map(|r| r.brief()).collect::<Vec<_>>(),
        expect,
        per.wins,
        base.showdowns,
        per.showdowns
    );
    let winners = base.wins.iter().filter(|w| w.iter().sum::<u64>() > 0).count();
    let pi_id = c.pi.iter().enumerate().all(|(i, p)| i == *p);
    let mut cls = 0u64;
    if base.flush_hands_in_moved_suit > 0 {
        cls |= 1;
    }
    if base.ties > 0 {
        cls |= 2;
    }
    if winners >= 2 {
        cls |= 4;
    }
    if !pi_id {
        cls |= 8;
    }
    if c.cfg.ranges.iter().any(|r| r.combos.len() > 255) {
        cls |= 16;
    }
    if n >= 3 {
        cls |= 32;
    }
    if base.wins.iter().any(|w| w.iter().skip(3).any(|x| *x > 0)) {
        cls |= 64;
    }
    let nontrivial = base.flush_hands_in_moved_suit > 0 && base.ties > 0 && winners >= 2 && (!pi_id || n == 1);
    Ok(Outcome::new(nontrivial, fp_of(&format!("{:?}", c)), cls))
}

pub const CLASSES: &[&str] = &["flush_in_relabelled_suit", "has_ties", "two_plus_players_win", "player_order_changed", "range_over_255", "three_plus_players", "three_plus_way_tie"];

/// flop biased to two or three cards of one suit
fn flushy_flop() -> impl Strategy<Value = [u8; 3]> {
    prop_oneof![
        2 => flop_strategy(),
        3 => (0u8..4, proptest::sample::subsequence((0..13u8).collect::<Vec<_>>(), 3), 0u8..4, any::<bool>()).prop_map(|(s, rs, s2, three)| {
            let third = if three || s2 == s { s } else { s2 };
            [rs[0] * 4 + s, rs[1] * 4 + s, rs[2] * 4 + third]
        }),
    ]
}

fn suited_pool(s: u8) -> Vec<(u8, u8)> {
    pool_pairs(&(0..13u8).map(|r| r * 4 + s).collect::<Vec<_>>())
}

pub fn strategy(budget: u128, wide: bool) -> impl Strategy<Value = Case> {
    let small = || {
        prop_oneof![
            3 => (0u8..4).prop_flat_map(|s| range_from(suited_pool(s), 1, 12)),
            3 => range_from(all_combos(), 1, 10),
            2 => proptest::sample::subsequence((0..52u8).collect::<Vec<_>>(), 5..=9).prop_flat_map(|cards| range_from(pool_pairs(&cards), 1, 8)),
        ]
    };
    let ranges = if wide {
        // a narrow range beside one of more than 255 combos
        (small(), prop_oneof![Just(256usize), Just(300usize), 257usize..700], any::<u64>(), any::<bool>(), any::<bool>())
            .prop_map(|(mut narrow, n, seed, w, first)| {
                narrow.combos.truncate(2);
                let wide = sized_range(n, seed, w);
                if first {
                    vec![wide, narrow]
                } else {
                    vec![narrow, wide]
                }
            })
            .boxed()
    } else {
        proptest::collection::vec(small(), 2..=4).boxed()
    };
    (flushy_flop(), ranges, 1usize..24, any::<u64>(), proptest::bool::weighted(if wide { 0.0 } else { 0.15 })).prop_map(move |(flop, ranges, si, pseed, mirror)| {
        let mut ranges = ranges;
        if mirror && ranges.len() >= 2 {
            // same ranks in another suit for the second player: ties become frequent
            let sh = [1u8, 2, 3, 0];
            ranges[1] = relabel(&Config { flop, ranges: vec![ranges[0].clone()], scope: None }, &sh).ranges.remove(0);
        }
        let mut cfg = Config { flop, ranges, scope: None };
        fit_budget(&mut cfg, budget);
        let n = cfg.ranges.len();
        let mut pi: Vec<usize> = (0..n).collect();
        let mut x = pseed;
        for i in (1..n).rev() {
            x = mix64(x);
            pi.swap(i, (x % (i as u64 + 1)) as usize);
        }
        Case { cfg, sigma: PERMS4[si], pi }
    })
}

/// three weights whose f32 product depends on the order of the multiplications and straddles a
/// "natural" threshold (EPSILON, 2^-24, 1e-6, 1e-7, 1e-9, 1e-3, MIN_POSITIVE): the player-order
/// relation must not be sensitive to such rounding
pub fn threshold_triple(seed: u64) -> Option<([f32; 3], f32)> {
    const T: [f32; 7] = [f32::EPSILON, 5.9604645e-8, 1.0e-6, 1.0e-7, 1.0e-9, 1.0e-3, f32::MIN_POSITIVE];
    let mut x = mix64(seed);
    for _ in 0..4000 {
        x = mix64(x);
        let t = T[(x % 7) as usize];
        let a = 0.002 + ((x >> 8) % 100_000) as f32 / 100_000.0 * 0.9;
        x = mix64(x);
        let b = 0.002 + ((x >> 8) % 100_000) as f32 / 100_000.0 * 0.9;
        let c0 = t / (a * b);
        if !(c0 > 0.0 && c0 <= 1.0) {
            continue;
        }
        for d in -3i32..=3 {
            let c = f32::from_bits((c0.to_bits() as i64 + d as i64) as u32);
            if !(c > 0.0 && c <= 1.0) {
                continue;
            }
            let p = [(a * b) * c, (a * c) * b, (b * c) * a];
            let (lo, hi) = (p.iter().cloned().fold(f32::MAX, f32::min), p.iter().cloned().fold(0.0f32, f32::max));
            if lo < hi && lo < t && t <= hi {
                return Some(([a, b, c], t));
            }
        }
    }
    None
}

pub fn threshold_strategy() -> impl Strategy<Value = Case> {
    (flushy_flop(), proptest::sample::subsequence((0..52u8).collect::<Vec<_>>(), 12), any::<u64>(), 1usize..24, proptest::collection::vec(1usize..=2, 3)).prop_map(|(flop, cards, seed, si, sizes)| {
        let (w, _) = threshold_triple(seed).unwrap_or(([0.5, 0.25, 0.125], 0.0));
        let free: Vec<u8> = cards.into_iter().filter(|c| !flop.contains(c)).collect();
        let mut ranges = vec![];
        let mut k = 0;
        for (i, n) in sizes.iter().enumerate() {
            let mut combos = vec![];
            for _ in 0..*n {
                if k + 1 < free.len() {
                    let p = norm_pair(free[k], free[k + 1]);
                    combos.push((p.0, p.1, w[i]));
                    k += 2;
                }
            }
            if combos.is_empty() {
                let p = norm_pair(free[0], free[1]);
                combos.push((p.0, p.1, w[i]));
            }
            ranges.push(RangeSpec { combos });
        }
        let mut x = mix64(seed ^ 0x5555);
        let mut pi: Vec<usize> = vec![0, 1, 2];
        for i in (1..3).rev() {
            x = mix64(x);
            pi.swap(i, (x % (i as u64 + 1)) as usize);
        }
        if pi == [0, 1, 2] {
            pi = vec![2, 0, 1];
        }
        Case { cfg: Config { flop, ranges, scope: None }, sigma: PERMS4[si], pi }
    })
}

pub fn brief(c: &Case) -> Value {
    json!({"cfg": c.cfg.brief(), "sigma": (0..4).map(|i| format!("{}->{}", SUIT_CH[i], SUIT_CH[c.sigma[i] as usize])).collect::<Vec<_>>().join(" "), "pi": c.pi})
}

pub fn run(ctx: &mut Ctx) {
    ctx.rule = "proptest metamorphic cases (in half of them the original, the relabelled and the reordered run are alive side by side on one thread with their next() calls taken in turn, otherwise one after the other): flop biased to 2-3 cards of one suit, 2-4 players with suit-asymmetric ranges (single-suit ranges, explicit combos, card pools, a mirrored second player for ties; stream wide_ranges: a range of 256-700 combos beside a narrow one), a non-identity suit permutation (all 23) and a player permutation; stream order_sensitive_weight_products: three players whose weights are constructed so that the f32 product depends on the multiplication order and straddles a natural threshold (EPSILON, 2^-24, 1e-6, 1e-7, 1e-9, 1e-3, MIN_POSITIVE), checked in all six player orders; stream many_players: 11-16 single-combo players from a card pool, or 2-23 single-combo players that are pairwise disjoint except for exactly one pair of seats, with a permutation that reverses the seats. Relations: integer tallies wins[player][k-way] and the showdown count are equal after relabelling flop and ranges, and permute with the players; in every showdown flagged winners == winner_len >= 1 (shares of 1/winner_len sum to one pot, rational arithmetic). Non-trivial = some winning-or-losing flush hand lies in a suit the permutation moves AND >= 1 tie AND >= 2 players win something AND the player order changes; distinct by case.".into();
    ctx.assumptions = vec!["tallies are integer counts as in the README loop; f32 sums are not compared (3 x 1/3 need not round to 1)".into()];
    let budget = ctx.tier.pick(150_000u128, 1_500_000u128);
    let cases = ctx.tier.pick(1_200, 12_000);
    ctx.run_random_brief(StreamCfg::new("relabel_and_reorder", CLASSES, cases).shrink(200), || strategy(budget, false), check, brief);
    for (c, d) in [("flush_in_relabelled_suit", 4), ("has_ties", 4), ("two_plus_players_win", 3), ("player_order_changed", 3), ("three_plus_players", 4)] {
        ctx.require_class("relabel_and_reorder", c, cases / d);
    }
    let cases = ctx.tier.pick(64, 960);
    ctx.run_random_brief(StreamCfg::new("wide_ranges", CLASSES, cases).shrink(60), || strategy(3_000_000u128, true), check, brief);
    ctx.require_class("wide_ranges", "range_over_255", cases * 3 / 4);
    // weights whose product is order-sensitive around a natural threshold; all player orders
    let cases = ctx.tier.pick(600, 12_000);
    ctx.run_random_brief(
        StreamCfg::new("order_sensitive_weight_products", CLASSES, cases).shrink(60),
        threshold_strategy,
        |c: &Case| {
            let mut last = check(c)?;
            for pi in [[0usize, 1, 2], [0, 2, 1], [1, 0, 2], [1, 2, 0], [2, 0, 1], [2, 1, 0]] {
                let mut cc = c.clone();
                cc.pi = pi.to_vec();
                last = check(&cc)?;
            }
            Ok(last)
        },
        brief,
    );
    // many players: 11-16 single-combo players drawn from a card pool (overlaps between seats far
    // apart), a player permutation that moves late seats to the front
    let cases = ctx.tier.pick(300, 6_000);
    ctx.run_random_brief(
        StreamCfg::new("many_players", CLASSES, cases).shrink(60),
        || {
            (prop_oneof![1 => pool_config(11..=16, 24..=36, 1), 3 => one_overlap_config()], 1usize..24, any::<u64>()).prop_map(|(cfg, si, seed)| {
                let n = cfg.ranges.len();
                let mut pi: Vec<usize> = (0..n).rev().collect();
                let mut x = mix64(seed);
                for _ in 0..3 {
                    x = mix64(x);
                    let (a, b) = ((x % n as u64) as usize, ((x >> 16) % n as u64) as usize);
                    pi.swap(a, b);
                }
                Case { cfg, sigma: PERMS4[si], pi }
            })
        },
        check,
        brief,
    );
    if ctx.tier == Tier::Thorough {
        // all 24 suit permutations for a sample of configurations
        let cases = 600u64;
        ctx.run_random_brief(
            StreamCfg::new("all_24_relabellings", CLASSES, cases).shrink(100),
            || strategy(300_000u128, false),
            |c: &Case| {
                let mut last = None;
                for s in PERMS4.iter() {
                    let mut cc = c.clone();
                    cc.sigma = *s;
                    last = Some(check(&cc)?);
                }
                Ok(last.unwrap())
            },
            brief,
        );
    }
}

pub fn replay(stream: &str, path: &str, case: &Value) -> i32 {
    if stream == "order_sensitive_weight_products" {
        return replay_case::<Case>("C11", path, case, |c: &Case| {
            let mut last = check(c)?;
            for pi in [[0usize, 1, 2], [0, 2, 1], [1, 0, 2], [1, 2, 0], [2, 0, 1], [2, 1, 0]] {
                let mut cc = c.clone();
                cc.pi = pi.to_vec();
                last = check(&cc)?;
            }
            Ok(last)
        });
    }
    if stream == "all_24_relabellings" {
        return replay_case::<Case>("C11", path, case, |c: &Case| {
            let mut last = None;
            for s in PERMS4.iter() {
                let mut cc = c.clone();
                cc.sigma = *s;
                last = Some(check(&cc)?);
            }
            Ok(last.unwrap())
        });
    }
    replay_case::<Case>("C11", path, case, check)
}
