//! C13 — card / rank / suit encodings are mutually inverse and order-consistent.
//! Complete enumeration of the finite domain named by the property.

use crate::cards::*;
use crate::runner::*;
use crate::{vensure, vfail};
use espada::card::{Card, Rank, RankRange, Suit, SuitRange};
use serde::{Deserialize, Serialize};
use serde_json::Value;

#[derive(Clone, Debug, Serialize, Deserialize)]
pub enum Case {
    Card(u8),
    Bit(u8),
    Ascii(String),
    RankPair(u8, u8),
    SuitPair(u8, u8),
    RankRange(u8, u8),
    SuitRange(u8, u8),
    AllRanges,
}

fn card_bits(c: Cid) -> u64 {
    u64::from(e_card(c))
}

pub fn check(case: &Case) -> CheckResult {
    match case {
        Case::Card(c) => {
            let c = *c;
            let card = e_card(c);
            let b = u64::from(card);
            let b2 = u64::from(&card);
            vensure!(b == b2, "card-u64-ref", "{}: u64::from(card)={:#x} but u64::from(&card)={:#x}", cname(c), b, b2);
            vensure!(b.count_ones() == 1, "card-u64-onebit", "{} -> {:#x} has {} bits set", cname(c), b, b.count_ones());
            vensure!(b < (1u64 << 52), "card-u64-low52", "{} -> {:#x} is not among the low 52 bits", cname(c), b);
            for o in 0..52u8 {
                if o != c {
                    vensure!(card_bits(o) != b, "card-u64-distinct", "{} and {} map to the same word {:#x}", cname(c), cname(o), b);
                }
            }
            let back = Card::from(b);
            let back2 = Card::from(&b);
            vensure!(back == card && back2 == card, "card-u64-roundtrip", "{} -> {:#x} -> {:?}/{:?}", cname(c), b, back, back2);
            let text = card.to_string();
            vensure!(text == cname(c), "card-text", "{:?} prints as {:?}, expected {:?}", card, text, cname(c));
            vensure!(text.chars().count() == 2, "card-text-len", "text {:?} is not two characters", text);
            match text.parse::<Card>() {
                Ok(p) => vensure!(p == card, "card-text-roundtrip", "{:?} parses back as {:?}", text, p),
                Err(_) => vfail!("card-text-roundtrip", "own text {:?} is rejected", text),
            }
            vensure!(rank_ix(card.rank()) == c / 4 && suit_ix(card.suit()) == c % 4, "card-accessors", "{}: rank()/suit() = {:?}/{:?}", cname(c), card.rank(), card.suit());
            vensure!(u8::from(card.rank()) == c / 4, "rank-number", "{:?} numbers as {}", card.rank(), u8::from(card.rank()));
            vensure!(u8::from(card.suit()) == c % 4, "suit-number", "{:?} numbers as {}", card.suit(), u8::from(card.suit()));
            // order: rank-major, then suit
            for o in 0..52u8 {
                let oc = e_card(o);
                vensure!((card < oc) == (c < o) && (card == oc) == (c == o) && (card > oc) == (c > o), "card-order", "{} vs {}: espada order disagrees with (rank, suit) order", cname(c), cname(o));
                vensure!(card.cmp(&oc) == c.cmp(&o) && card.partial_cmp(&oc) == Some(c.cmp(&o)), "card-order", "{} vs {}: cmp disagrees", cname(c), cname(o));
            }
            Ok(Outcome::new(true, c as u64, 1))
        }
        Case::Bit(i) => {
            let w = 1u64 << *i;
            let card = Card::from(w);
            let back = u64::from(card);
            vensure!(back == w, "bit-roundtrip", "bit {} -> {:?} -> {:#x}", i, card, back);
            let card2 = Card::from(&w);
            vensure!(card2 == card, "bit-ref", "Card::from(&w) != Card::from(w) for bit {}", i);
            Ok(Outcome::new(true, *i as u64, 2))
        }
        Case::Ascii(s) => {
            let expect: Option<Cid> = if s.len() == 2 {
                let b = s.as_bytes();
                let r = RANK_CH.iter().position(|c| *c as u8 == b[0]);
                let su = SUIT_CH.iter().position(|c| *c as u8 == b[1]);
                match (r, su) {
                    (Some(r), Some(su)) => Some((r * 4 + su) as u8),
                    _ => None,
                }
            } else {
                None
            };
            let got = s.parse::<Card>();
            match (expect, got) {
                (Some(c), Ok(card)) => vensure!(card == e_card(c), "ascii-card-value", "{:?} parses as {:?}", s, card),
                (Some(_), Err(_)) => vfail!("ascii-card-rejected", "{:?} is a card text but is rejected", s),
                (None, Ok(card)) => vfail!("ascii-noncard-accepted", "{:?} is not a card text but parses as {:?}", s, card),
                (None, Err(_)) => {}
            }
            // one-character strings: rank / suit character tables
            if s.len() == 1 {
                let ch = s.chars().next().unwrap();
                let er = RANK_CH.iter().position(|c| *c == ch);
                match (er, Rank::try_from(ch), Rank::try_from(&ch), s.parse::<Rank>()) {
                    (Some(r), Ok(a), Ok(b), Ok(c)) => {
                        vensure!(rank_ix(&a) == r as u8 && a == b && a == c, "rank-char", "char {:?} -> {:?}/{:?}/{:?}", ch, a, b, c);
                        vensure!(char::from(a) == ch && char::from(&a) == ch && a.to_string() == *s, "rank-char-back", "{:?} prints as {:?}", a, a.to_string());
                    }
                    (None, Err(_), Err(_), Err(_)) => {}
                    (e, a, b, c) => vfail!("rank-char", "char {:?}: expected rank index {:?}, got {:?}/{:?}/{:?}", ch, e, a, b, c),
                }
                let es = SUIT_CH.iter().position(|c| *c == ch);
                match (es, Suit::try_from(ch), Suit::try_from(&ch), s.parse::<Suit>()) {
                    (Some(r), Ok(a), Ok(b), Ok(c)) => {
                        vensure!(suit_ix(&a) == r as u8 && a == b && a == c, "suit-char", "char {:?} -> {:?}/{:?}/{:?}", ch, a, b, c);
                        vensure!(char::from(a) == ch && char::from(&a) == ch && a.to_string() == *s, "suit-char-back", "{:?} prints as {:?}", a, a.to_string());
                    }
                    (None, Err(_), Err(_), Err(_)) => {}
                    (e, a, b, c) => vfail!("suit-char", "char {:?}: expected suit index {:?}, got {:?}/{:?}/{:?}", ch, e, a, b, c),
                }
            }
            let cls = if expect.is_some() { 4 } else { 8 };
            Ok(Outcome::new(true, hash_str(s), cls))
        }
        Case::RankPair(a, b) => {
            let (ra, rb) = (e_rank(*a), e_rank(*b));
            vensure!(u8::from(ra) == *a && u8::from(&ra) == *a, "rank-number", "{:?} numbers as {}", ra, u8::from(ra));
            vensure!((ra < rb) == (a < b) && (ra == rb) == (a == b) && ra.cmp(&rb) == a.cmp(b) && ra.partial_cmp(&rb) == Some(a.cmp(b)), "rank-order", "{:?} vs {:?}: order disagrees with numbering", ra, rb);
            let en = if *a < 12 { Some(e_rank(a + 1)) } else { None };
            let ep = if *a > 0 { Some(e_rank(a - 1)) } else { None };
            vensure!(ra.next() == en, "rank-next", "{:?}.next() = {:?}, expected {:?}", ra, ra.next(), en);
            vensure!(ra.prev() == ep, "rank-prev", "{:?}.prev() = {:?}, expected {:?}", ra, ra.prev(), ep);
            Ok(Outcome::new(true, (*a as u64) << 8 | *b as u64, 16))
        }
        Case::SuitPair(a, b) => {
            let (sa, sb) = (e_suit(*a), e_suit(*b));
            vensure!(u8::from(sa) == *a && u8::from(&sa) == *a, "suit-number", "{:?} numbers as {}", sa, u8::from(sa));
            vensure!((sa < sb) == (a < b) && (sa == sb) == (a == b) && sa.cmp(&sb) == a.cmp(b) && sa.partial_cmp(&sb) == Some(a.cmp(b)), "suit-order", "{:?} vs {:?}: order disagrees with numbering", sa, sb);
            Ok(Outcome::new(true, (*a as u64) << 8 | *b as u64, 32))
        }
        Case::RankRange(a, b) => {
            let excl: Vec<Rank> = RankRange::new(e_rank(*a), e_rank(*b)).into_iter().collect();
            let incl: Vec<Rank> = RankRange::inclusive(e_rank(*a), e_rank(*b)).into_iter().collect();
            let me: Vec<Rank> = (*a..*b).map(e_rank).collect();
            let mi: Vec<Rank> = (*a..=*b).map(e_rank).collect();
            vensure!(excl == me, "rankrange-new", "RankRange::new({:?},{:?}) = {:?}, expected {:?}", e_rank(*a), e_rank(*b), excl, me);
            vensure!(incl == mi, "rankrange-inclusive", "RankRange::inclusive({:?},{:?}) = {:?}, expected {:?}", e_rank(*a), e_rank(*b), incl, mi);
            Ok(Outcome::new(true, (*a as u64) << 8 | *b as u64, 64))
        }
        Case::SuitRange(a, b) => {
            let excl: Vec<Suit> = SuitRange::new(e_suit(*a), e_suit(*b)).into_iter().collect();
            let incl: Vec<Suit> = SuitRange::inclusive(e_suit(*a), e_suit(*b)).into_iter().collect();
            let me: Vec<Suit> = (*a..*b).map(e_suit).collect();
            let mi: Vec<Suit> = (*a..=*b).map(e_suit).collect();
            vensure!(excl == me, "suitrange-new", "SuitRange::new({:?},{:?}) = {:?}, expected {:?}", e_suit(*a), e_suit(*b), excl, me);
            vensure!(incl == mi, "suitrange-inclusive", "SuitRange::inclusive({:?},{:?}) = {:?}, expected {:?}", e_suit(*a), e_suit(*b), incl, mi);
            Ok(Outcome::new(true, (*a as u64) << 8 | *b as u64, 128))
        }
        Case::AllRanges => {
            let r: Vec<Rank> = RankRange::all().into_iter().collect();
            let s: Vec<Suit> = SuitRange::all().into_iter().collect();
            vensure!(r == E_RANKS.to_vec(), "rankrange-all", "RankRange::all() = {:?}", r);
            vensure!(s == E_SUITS.to_vec(), "suitrange-all", "SuitRange::all() = {:?}", s);
            Ok(Outcome::new(true, 1, 256))
        }
    }
}

const CLASSES: &[&str] = &["card", "bit", "ascii_card_text", "ascii_non_card", "rank_pair", "suit_pair", "rank_range", "suit_range", "all_ranges"];

pub fn cases(tier: Tier) -> Vec<Case> {
    let mut v = vec![];
    for c in 0..52 {
        v.push(Case::Card(c));
    }
    for i in 0..52 {
        v.push(Case::Bit(i));
    }
    for a in 0..128u8 {
        v.push(Case::Ascii((a as char).to_string()));
    }
    for a in 0..128u8 {
        for b in 0..128u8 {
            v.push(Case::Ascii(format!("{}{}", a as char, b as char)));
        }
    }
    v.push(Case::Ascii(String::new()));
    if tier == Tier::Thorough {
        for a in 0..128u8 {
            for b in 0..128u8 {
                for c in 0..128u8 {
                    v.push(Case::Ascii(format!("{}{}{}", a as char, b as char, c as char)));
                }
            }
        }
    }
    for a in 0..13 {
        for b in 0..13 {
            v.push(Case::RankPair(a, b));
        }
    }
    for a in 0..4 {
        for b in 0..4 {
            v.push(Case::SuitPair(a, b));
        }
    }
    for a in 0..13 {
        for b in a..13 {
            v.push(Case::RankRange(a, b));
        }
    }
    for a in 0..4 {
        for b in a..4 {
            v.push(Case::SuitRange(a, b));
        }
    }
    v.push(Case::AllRanges);
    v
}

pub fn run(ctx: &mut Ctx) {
    ctx.rule = "complete enumeration: 52 cards (u64 and text round trips, distinctness and order against all 52), the 52 low single-bit words, every ASCII string of length 0-2 (quick) / 0-3 (thorough) as a card and every 1-char string as rank/suit, all 13x13 rank and 4x4 suit pairs (numbering, order, next/prev), all ordered endpoint pairs start<=end of RankRange/SuitRange new/inclusive, all(); every case is non-trivial and distinct by construction".into();
    ctx.assumptions = vec![
        "reversed range endpoints (start > end) are outside the statement ('the run between its endpoints') and are not generated".into(),
        "espada values are built only through Card::new and enum variants, so the model numbering is independent of the conversions under test".into(),
    ];
    ctx.exhaustive = env_scale() >= 1.0;
    let all = cases(ctx.tier);
    let n = all.len() as u64;
    ctx.run_enum(StreamCfg::new("encodings", CLASSES, n), n, true, |i| all[i as usize].clone(), check);
}

pub fn replay(_stream: &str, path: &str, case: &Value) -> i32 {
    replay_case::<Case>("C13", path, case, check)
}
