//! C02 — flop enumeration yields every legal deal exactly once and nothing else.

use crate::cards::*;
use crate::evalmodel::*;
use crate::runner::*;
use crate::vensure;
use proptest::prelude::*;
use serde_json::Value;

/// probability tolerance: the statement fixes the value (product of the chosen weights), not the
/// order of the f32 multiplications, so allow (n+1) roundings.
pub fn prob_ok(got: f32, want: f64, n: usize) -> bool {
    let g = got as f64;
    if g == want {
        return true;
    }
    (g - want).abs() <= want.abs() * (n as f64 + 1.0) * (2.0f64).powi(-23) + f64::MIN_POSITIVE
}

pub fn check(cfg: &Config) -> CheckResult {
    vensure!(cfg.valid() && cfg.scope.is_none(), "bad-case", "invalid configuration");
    vensure!(cfg.ranges.iter().all(|r| !r.combos.is_empty()), "bad-case", "C02 quantifies over ranges of size 1..=1326");
    let n = cfg.ranges.len();
    let mut deals = Vec::new();
    let mut blocked_pp = 0u64;
    model_deals(cfg, (0, 1), (48, 49), &mut deals, &mut blocked_pp);
    deals.sort_by_key(|d| d.key);
    let recs = drain(cfg, deals.len())?;
    let mut got: Vec<DealKey> = Vec::with_capacity(recs.len());
    for r in &recs {
        let k = r.key();
        got.push(k);
        match deals.binary_search_by_key(&k, |d| d.key) {
            Ok(i) => {
                let want = deals[i].prob;
                let p = f32::from_bits(r.prob_bits);
                vensure!(prob_ok(p, want, n), "probability", "deal {}: probability {} reported, product of the chosen weights is {}", describe_key(cfg, k), p, want);
            }
            Err(_) => {
                return Err(Fail::new("extra-deal", format!("evaluator yields a deal that is not legal: {}", describe_key(cfg, k))));
            }
        }
    }
    got.sort_unstable();
    for w in got.windows(2) {
        if w[0] == w[1] {
            return Err(Fail::new("duplicate-deal", format!("deal yielded more than once: {}", describe_key(cfg, w[0]))));
        }
    }
    if got.len() != deals.len() {
        // first missing
        let mut gi = 0;
        for d in &deals {
            if gi < got.len() && got[gi] == d.key {
                gi += 1;
            } else {
                return Err(Fail::new(
                    "missing-deal",
                    format!("legal deal never yielded: {} ({} of {} legal deals were yielded; range sizes {:?})", describe_key(cfg, d.key), got.len(), deals.len(), cfg.ranges.iter().map(|r| r.combos.len()).collect::<Vec<_>>()),
                ));
            }
        }
    }
    let multi = cfg.ranges.iter().any(|r| r.combos.len() >= 2);
    let mut cls = 0u64;
    if blocked_pp > 0 {
        cls |= 1;
    }
    if cfg.ranges.iter().any(|r| r.combos.iter().any(|c| cfg.flop.contains(&c.0) || cfg.flop.contains(&c.1))) {
        cls |= 2;
    }
    if cfg.ranges.iter().any(|r| r.combos.len() > 255) {
        cls |= 4;
    }
    if n >= 3 {
        cls |= 8;
    }
    if n >= 7 {
        cls |= 128;
    }
    if cfg.ranges.iter().any(|r| r.combos.iter().any(|c| c.2 != 1.0)) {
        cls |= 16;
    }
    if deals.is_empty() {
        cls |= 32;
    }
    if cfg.ranges.iter().any(|r| r.combos.len() == 1326) {
        cls |= 64;
    }
    Ok(Outcome::new(blocked_pp > 0 && multi, fp_of(&format!("{:?}", cfg)), cls))
}

pub const CLASSES: &[&str] = &["player_player_collision", "range_overlaps_flop", "range_over_255", "three_plus_players", "weights_not_1", "no_legal_deal", "full_1326_range", "seven_plus_players"];

pub fn strategy(budget: u128) -> impl Strategy<Value = Config> {
    let sizes = prop_oneof![Just(255usize), Just(256usize), Just(257usize), Just(300usize), Just(512usize), Just(1326usize), 100usize..1326];
    prop_oneof![
        4 => pool_config(2..=4, 6..=12, 8),
        1 => pool_config(5..=6, 10..=14, 3),
        1 => pool_config(7..=10, 16..=26, 2),
        2 => free_config(1..=1, 1, 1326),
        2 => free_config(2..=3, 1, 6),
        1 => (flop_strategy(), range_from(all_combos(), 2, 30)).prop_map(|(flop, r)| Config { flop, ranges: vec![r.clone(), r], scope: None }),
        2 => (flop_strategy(), range_from(all_combos(), 1, 3), sizes, any::<u64>(), any::<bool>(), any::<bool>()).prop_map(|(flop, narrow, size, seed, w, wide_first)| {
            let wide = sized_range(size, seed, w);
            Config { flop, ranges: if wide_first { vec![wide, narrow] } else { vec![narrow, wide] }, scope: None }
        }),
    ]
    .prop_map(move |mut c| {
        fit_budget(&mut c, budget);
        c
    })
}

pub fn run(ctx: &mut Ctx) {
    ctx.rule = "proptest configurations (ordered flop, 1..=10 players, ranges built directly from combo subsets with weights {1,.5,.25,0} + arbitrary f32 in [2^-10,1]): card-pool ranges (frequent player-player blocking, pools may contain flop cards), one player of any size up to 1326, small free ranges, two identical ranges, narrow beside wide (255/256/257/300/512/1326/random); sizes cut to a slot budget (cost bound). Oracle: multiset of yielded deals == reference enumeration (every legal deal once, nothing else), board = flop in order + turn/river, hole cards in player order, probability == product of weights within (n+1) roundings, all cards distinct. Non-trivial = the reference excluded >= 1 candidate deal because two players collide AND some player has >= 2 combos; distinct by configuration.".into();
    ctx.assumptions = vec![
        "turn/river order inside the board is not demanded here (C04 does)".into(),
        "weights in {0} U [2^-10,1] so that a product over <= 6 players cannot underflow".into(),
    ];
    let budget = ctx.tier.pick(2_000_000u128, 12_000_000u128);
    let cases = ctx.tier.pick(1200, 12_000);
    ctx.run_random_brief(StreamCfg::new("configurations", CLASSES, cases).shrink(200), || strategy(budget), check, |c| c.brief());
    for (c, d) in [("player_player_collision", 4), ("range_overlaps_flop", 10), ("range_over_255", 20), ("three_plus_players", 8), ("weights_not_1", 4)] {
        ctx.require_class("configurations", c, cases / d);
    }
}

pub fn replay(_stream: &str, path: &str, case: &Value) -> i32 {
    replay_case::<Config>("C02", path, case, check)
}
