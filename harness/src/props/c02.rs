//! C02 — flop enumeration yields every legal deal exactly once and nothing else.

use crate::cards::*;
use crate::evalmodel::*;
use crate::runner::*;
use crate::vensure;
use proptest::prelude::*;
use serde_json::{json, Value};

/// probability tolerance: the statement fixes the value (product of the chosen weights), not the
/// order of the f32 multiplications, so allow (n+1) roundings.
pub fn prob_ok(got: f32, want: f64, n: usize) -> bool {
    let g = got as f64;
    if g == want {
        return true;
    }
    (g - want).abs() <= want.abs() * (n as f64 + 1.0) * (2.0f64).powi(-23) + f64::MIN_POSITIVE
}

/// probability of one showdown: for up to 4 players it must be one of the f32 values the product
/// of the chosen weights can take under some order/association of the multiplications (or the
/// correctly rounded exact product) - in particular the weight itself for one player; for more
/// players a relative tolerance of (n+1) roundings.
pub fn check_probability(cfg: &Config, combos: &[u16], got: f32, want: f64) -> Result<(), String> {
    let ws: Vec<f32> = combos.iter().enumerate().map(|(i, c)| cfg.ranges[i].combos[*c as usize].2).collect();
    match product_candidates(&ws) {
        Some(c) => {
            if c.contains(&got.to_bits()) || (got == 0.0 && c.iter().any(|b| f32::from_bits(*b) == 0.0)) {
                Ok(())
            } else {
                Err(format!("probability {} ({:#x}) reported; the chosen weights {:?} multiply to {} (possible f32 results: {:?})", got, got.to_bits(), ws, want, c.iter().map(|b| f32::from_bits(*b)).collect::<Vec<_>>()))
            }
        }
        None => {
            if prob_ok(got, want, ws.len()) {
                Ok(())
            } else {
                Err(format!("probability {} reported, product of the chosen weights {:?} is {}", got, ws, want))
            }
        }
    }
}

pub fn check(cfg: &Config) -> CheckResult {
    check_players(cfg, None)
}

/// ranges given as notation text (token lists with overlaps): the evaluator runs over the PARSED
/// ranges, the model over the combos the text denotes
#[derive(Clone, Debug, serde::Serialize, serde::Deserialize)]
pub struct TextCase {
    pub flop: [u8; 3],
    pub lists: Vec<crate::props::c05::ListCase>,
}

pub fn check_text(c: &TextCase) -> CheckResult {
    use crate::notation::{espada_map, model_of_tokens, diff_maps};
    let mut ranges = vec![];
    let mut players = vec![];
    for l in &c.lists {
        let text = crate::props::c05::list_text(l);
        let m = model_of_tokens(&l.toks);
        let Ok(r) = text.parse::<espada::hand_range::HandRange>() else {
            return Ok(Outcome::default()); // C05's subject
        };
        if diff_maps(&m, &espada_map(&r)).is_some() || m.is_empty() {
            return Ok(Outcome::default()); // contents differ from the notation's meaning: C05's subject
        }
        ranges.push(RangeSpec { combos: m.iter().map(|(k, w)| (k.0, k.1, *w)).collect() });
        players.push(r);
    }
    let mut cfg = Config { flop: c.flop, ranges, scope: None };
    // cost bound: only small products are drained completely
    if cfg.slots() > 1_200_000 {
        return Ok(Outcome::default());
    }
    cfg.scope = None;
    let mut o = check_players(&cfg, Some(&players)).map_err(|mut f| {
        f.what = format!("{} [ranges parsed from {:?}]", f.what, c.lists.iter().map(crate::props::c05::list_text).collect::<Vec<_>>());
        f
    })?;
    // non-trivial here: some combo comes from two tokens of one list
    let mut dup = false;
    for l in &c.lists {
        let mut seen = std::collections::BTreeSet::new();
        for t in &l.toks {
            for p in t.tok.combos() {
                if !seen.insert(p) {
                    dup = true;
                }
            }
        }
    }
    o.nontrivial = dup;
    o.classes = (o.classes & !512) | if dup { 512 } else { 0 };
    Ok(o)
}

pub fn text_strategy() -> impl Strategy<Value = TextCase> {
    (flop_strategy(), proptest::collection::vec(crate::props::c05::list_strategy(5), 1..=3)).prop_map(|(flop, lists)| TextCase { flop, lists })
}

pub fn check_players(cfg: &Config, players: Option<&Vec<espada::hand_range::HandRange>>) -> CheckResult {
    vensure!(cfg.valid() && cfg.scope.is_none(), "bad-case", "invalid configuration");
    vensure!(cfg.ranges.iter().all(|r| !r.combos.is_empty()), "bad-case", "C02 quantifies over ranges of size 1..=1326");
    let n = cfg.ranges.len();
    let mut deals = Vec::new();
    let mut blocked_pp = 0u64;
    model_deals(cfg, (0, 1), (48, 49), &mut deals, &mut blocked_pp);
    deals.sort_by_key(|d| d.key);
    let recs = match players {
        Some(p) => drain_with(cfg, p, deals.len())?,
        None => drain(cfg, deals.len())?,
    };
    let widths = key_widths(cfg);
    let mut got: Vec<DealKey> = Vec::with_capacity(recs.len());
    for r in &recs {
        let k = r.key(&widths);
        got.push(k);
        match deals.binary_search_by_key(&k, |d| d.key) {
            Ok(i) => {
                let want = deals[i].prob;
                let p = f32::from_bits(r.prob_bits);
                check_probability(cfg, &r.combos, p, want).map_err(|e| Fail::new("probability", format!("deal {}: {}", describe_key(cfg, k), e)))?;
            }
            Err(_) => {
                return Err(Fail::new("extra-deal", format!("evaluator yields a deal that is not legal: {}", describe_key(cfg, k))));
            }
        }
    }
    got.sort_unstable();
    for w in got.windows(2) {
        if w[0] == w[1] {
            return Err(Fail::new("duplicate-deal", format!("deal yielded more than once: {}", describe_key(cfg, w[0]))));
        }
    }
    if got.len() != deals.len() {
        // first missing
        let mut gi = 0;
        for d in &deals {
            if gi < got.len() && got[gi] == d.key {
                gi += 1;
            } else {
                return Err(Fail::new(
                    "missing-deal",
                    format!("legal deal never yielded: {} ({} of {} legal deals were yielded; range sizes {:?})", describe_key(cfg, d.key), got.len(), deals.len(), cfg.ranges.iter().map(|r| r.combos.len()).collect::<Vec<_>>()),
                ));
            }
        }
    }
    // the same run consumed through nth()/skip()/step_by()/count()/last()/collect()/for_each()
    {
        let mk = || match players {
            Some(p) => espada::evaluator::FlopExhaustiveEvaluator::new(&e_board(&cfg.flop), p),
            None => cfg.evaluator(),
        };
        consume_variants(&mk, &Translator::new(cfg), deals.len(), fp_of(&format!("{:?}", cfg)), "unscoped evaluator")?;
    }
    let multi = cfg.ranges.iter().any(|r| r.combos.len() >= 2);
    let mut cls = 0u64;
    if blocked_pp > 0 {
        cls |= 1;
    }
    if cfg.ranges.iter().any(|r| r.combos.iter().any(|c| cfg.flop.contains(&c.0) || cfg.flop.contains(&c.1))) {
        cls |= 2;
    }
    if cfg.ranges.iter().any(|r| r.combos.len() > 255) {
        cls |= 4;
    }
    if n >= 3 {
        cls |= 8;
    }
    if n >= 7 {
        cls |= 128;
    }
    if n >= 12 {
        cls |= 1024;
    }
    if cfg.ranges.iter().any(|r| r.combos.iter().any(|c| c.2 != 1.0)) {
        cls |= 16;
    }
    if deals.is_empty() {
        cls |= 32;
    }
    if cfg.ranges.iter().any(|r| r.combos.len() == 1326) {
        cls |= 64;
    }
    if cfg.ranges.iter().any(|r| r.combos.iter().any(|c| c.2 > 0.0 && c.2 < 1.0e-5)) {
        cls |= 256;
    }
    Ok(Outcome::new(blocked_pp > 0 && multi, fp_of(&format!("{:?}", cfg)), cls))
}

// ---------------------------------------------------------------------------------------------
// configurations far too large to drain: only a prefix of the output can be observed

#[derive(Clone, Debug, serde::Serialize, serde::Deserialize)]
pub struct PrefixCase {
    pub cfg: Config,
    pub take: usize,
}

/// number of legal deals at position (t,r), counted up to `cap`
fn legal_deals_at(cfg: &Config, t: u8, r: u8, cap: usize) -> usize {
    let deck = deck49(&cfg.flop);
    let (ct, cr) = (deck[t as usize], deck[r as usize]);
    let mut base = 1u64 << ct | 1u64 << cr;
    for f in cfg.flop {
        base |= 1 << f;
    }
    let live: Vec<Vec<u64>> = cfg.ranges.iter().map(|rg| rg.combos.iter().map(|c| 1u64 << c.0 | 1u64 << c.1).filter(|m| m & base == 0).collect()).collect();
    if live.iter().any(|l| l.is_empty()) {
        return 0;
    }
    fn rec(live: &[Vec<u64>], p: usize, used: u64, cap: usize, n: &mut usize) {
        if *n >= cap {
            return;
        }
        if p == live.len() {
            *n += 1;
            return;
        }
        for m in &live[p] {
            if used & m == 0 {
                rec(live, p + 1, used | m, cap, n);
                if *n >= cap {
                    return;
                }
            }
        }
    }
    let mut n = 0;
    rec(&live, 0, 0, cap, &mut n);
    n
}

pub fn check_prefix(c: &PrefixCase) -> CheckResult {
    let cfg = &c.cfg;
    vensure!(cfg.valid() && cfg.ranges.iter().all(|r| !r.combos.is_empty()) && c.take >= 1, "bad-case", "invalid prefix case");
    let (from, to) = match cfg.scope {
        Some((a, b, cc, d)) => (pos_index(a, b), pos_index(cc, d)),
        None => (0u16, 1176u16),
    };
    vensure!(from <= to, "bad-case", "window reversed");
    let tr = Translator::new(cfg);
    let widths = key_widths(cfg);
    let t_dbg = std::time::Instant::now();
    let mut keys = std::collections::HashSet::new();
    let mut got = 0usize;
    let mut first_pos: Option<u16> = None;
    let mut last_pos = 0u16;
    let mut exhausted = true;
    let mut it = cfg.evaluator().into_iter();
    while let Some(s) = it.next() {
        let rec = tr.record(&s)?;
        vensure!(rec.t < rec.r, "turn-river-order", "turn/river positions ({}, {})", rec.t, rec.r);
        let p = pos_index(rec.t, rec.r);
        vensure!(p >= from && p < to, "prefix-outside-window", "showdown at position {:?} outside the window {:?}..{:?}", index_pos(p), index_pos(from), index_pos(to));
        vensure!(p >= last_pos, "prefix-position-order", "positions step back from {:?} to {:?}", index_pos(last_pos), index_pos(p));
        last_pos = p;
        if first_pos.is_none() {
            first_pos = Some(p);
        }
        vensure!(keys.insert(rec.key(&widths)), "duplicate-deal", "deal yielded more than once within the first {} showdowns: {}", got + 1, describe_key(cfg, rec.key(&widths)));
        let want: f64 = rec.combos.iter().enumerate().map(|(i, ci)| cfg.ranges[i].combos[*ci as usize].2 as f64).product();
        check_probability(cfg, &rec.combos, f32::from_bits(rec.prob_bits), want).map_err(|e| Fail::new("probability", format!("deal {}: {}", describe_key(cfg, rec.key(&widths)), e)))?;
        got += 1;
        if got >= c.take {
            exhausted = false;
            break;
        }
    }
    if std::env::var("VERIF_DEBUG_TIMING").is_ok() {
        eprintln!("prefix: sizes {:?} scope {:?} take {} got {} espada {:.2}s", cfg.ranges.iter().map(|r| r.combos.len()).collect::<Vec<_>>(), cfg.scope, c.take, got, t_dbg.elapsed().as_secs_f64());
    }
    // how many legal deals does the window hold (counted up to `take`), and where is the first one
    let mut need = 0usize;
    let mut first_legal: Option<u16> = None;
    let mut p = from;
    while p < to && need < c.take {
        let (t, r) = index_pos(p);
        let n = legal_deals_at(cfg, t, r, c.take - need);
        if n > 0 && first_legal.is_none() {
            first_legal = Some(p);
        }
        need += n;
        p += 1;
    }
    if std::env::var("VERIF_DEBUG_TIMING").is_ok() {
        eprintln!("prefix: model done need {} at {:.2}s", need, t_dbg.elapsed().as_secs_f64());
    }
    let sizes: Vec<usize> = cfg.ranges.iter().map(|r| r.combos.len()).collect();
    vensure!(
        got >= need.min(c.take),
        "prefix-too-short",
        "window {:?}..{:?}, range sizes {:?}: the evaluator stops after {} showdowns (exhausted: {}), the window holds at least {} legal deals",
        index_pos(from),
        index_pos(to),
        sizes,
        got,
        exhausted,
        need
    );
    if let (Some(a), Some(b)) = (first_pos, first_legal) {
        vensure!(a == b, "prefix-first-position", "first showdown at position {:?}, the first position of the window with a legal deal is {:?}", index_pos(a), index_pos(b));
    }
    vensure!(first_legal.is_some() || got == 0, "extra-deal", "the window {:?}..{:?} holds no legal deal but {} showdowns were yielded", index_pos(from), index_pos(to), got);
    let product: f64 = sizes.iter().map(|s| *s as f64).product();
    let mut cls = 0u64;
    if product * (to - from).max(1) as f64 >= 4294967296.0 {
        cls |= 1;
    }
    if product >= 4294967296.0 {
        cls |= 2;
    }
    if cfg.scope.is_some() {
        cls |= 4;
    }
    if sizes.len() >= 4 {
        cls |= 8;
    }
    Ok(Outcome::new(cls & 1 != 0, fp_of(&format!("{:?}", c)), cls))
}
pub const PREFIX_CLASSES: &[&str] = &["window_slots_over_2_32", "combos_product_over_2_32", "scoped", "four_plus_players"];

/// 3 big ranges (up to all 1326 combos each; with more players a single blocked leading combo
/// costs 1326^(n-1) odometer steps before the next showdown, which is not affordable), or 4
/// ranges of at most 160 combos; optionally a scope window
pub fn prefix_strategy(scoped: bool) -> impl Strategy<Value = PrefixCase> {
    let size = prop_oneof![Just(1326usize), Just(1024usize), Just(1625usize), Just(2048usize), Just(512usize), 300usize..1326];
    (flop_strategy(), proptest::collection::vec((size, any::<u64>(), any::<bool>()), 3..=4), if scoped { proptest::option::weighted(0.9, crate::props::c04::window_strategy()).boxed() } else { Just(None::<(u16, u16)>).boxed() }, prop_oneof![Just(1usize), Just(64usize), 500usize..3000]).prop_map(|(flop, rs, w, take)| {
        let cap = if rs.len() >= 4 { 160 } else { 1326 };
        let ranges = rs.iter().map(|(n, seed, wts)| sized_range((*n).min(cap), *seed, *wts)).collect();
        let scope = w.filter(|(a, b)| a < b).map(|(a, b)| {
            let (pa, pb) = (index_pos(a), index_pos(b));
            (pa.0, pa.1, pb.0, pb.1)
        });
        PrefixCase { cfg: Config { flop, ranges, scope }, take }
    })
}

pub const CLASSES: &[&str] = &["player_player_collision", "range_overlaps_flop", "range_over_255", "three_plus_players", "weights_not_1", "no_legal_deal", "full_1326_range", "seven_plus_players", "tiny_weights", "combo_named_by_two_tokens", "twelve_plus_players"];

pub fn strategy(budget: u128) -> impl Strategy<Value = Config> {
    let sizes = prop_oneof![
        Just(127usize), Just(128usize), Just(129usize), Just(255usize), Just(256usize), Just(257usize), Just(300usize), Just(511usize), Just(512usize), Just(513usize),
        Just(1023usize), Just(1024usize), Just(1025usize), Just(1325usize), Just(1326usize), 100usize..1326
    ];
    prop_oneof![
        4 => pool_config(2..=4, 6..=12, 8),
        1 => pool_config(5..=6, 10..=14, 3),
        1 => pool_config(7..=10, 16..=26, 2),
        1 => pool_config(11..=16, 26..=40, 1),
        // "elimination" tables: a known single-combo seat kills combos of the other seats, whose
        // surviving combos come from a small common pool
        2 => elimination_config(),
        // "blocker" ranges: 2-51 combos that all contain one card, alone or beside other players
        2 => (flop_strategy(), 0u8..52, prop_oneof![Just(2usize), Just(15usize), Just(16usize), Just(17usize), Just(51usize), 2usize..51], any::<u64>(), any::<bool>(), proptest::option::of(range_from(all_combos(), 1, 4)), any::<bool>()).prop_map(|(flop, card, size, seed, w, other, first)| {
            let b = holding_range(card, size, seed, w);
            let ranges = match other {
                Some(o) => if first { vec![b, o] } else { vec![o, b] },
                None => vec![b],
            };
            Config { flop, ranges, scope: None }
        }),
        // up to 23 single-combo players, pairwise disjoint except for exactly one pair of seats
        2 => one_overlap_config(),
        2 => free_config(1..=1, 1, 1326),
        2 => free_config(2..=3, 1, 6),
        // the empty list of players: one showdown per board, probability 1 (empty product)
        1 => flop_strategy().prop_map(|flop| Config { flop, ranges: vec![], scope: None }),
        1 => (flop_strategy(), range_from(all_combos(), 2, 30)).prop_map(|(flop, r)| Config { flop, ranges: vec![r.clone(), r], scope: None }),
        2 => (flop_strategy(), range_from(all_combos(), 1, 3), sizes, any::<u64>(), any::<bool>(), any::<bool>()).prop_map(|(flop, narrow, size, seed, w, wide_first)| {
            let wide = sized_range(size, seed, w);
            Config { flop, ranges: if wide_first { vec![wide, narrow] } else { vec![narrow, wide] }, scope: None }
        }),
    ]
    .prop_map(move |mut c| {
        fit_budget(&mut c, budget);
        c
    })
    .prop_flat_map(|c| (Just(c), proptest::option::weighted(0.2, (any::<u64>(), 0usize..4))))
    .prop_map(|(mut c, tiny)| {
        // with at most 4 players a product of tiny weights stays a normal f32: sprinkle some
        if let Some((seed, which)) = tiny {
            if c.ranges.len() <= 4 {
                const TINY: [f32; 4] = [9.536743e-7, 1.1920929e-7, 1.0e-7, 5.9604645e-8];
                let mut x = seed;
                for r in c.ranges.iter_mut() {
                    for combo in r.combos.iter_mut() {
                        x = mix64(x);
                        if x % 5 == 0 {
                            combo.2 = TINY[(which + (x >> 8) as usize) % 4];
                        }
                    }
                }
            }
        }
        c
    })
}

pub fn run(ctx: &mut Ctx) {
    ctx.rule = "proptest configurations (ordered flop, 0..=16 players, ranges built directly from combo subsets with weights {1,.5,.25,0} + arbitrary f32 in [2^-10,1] + 'nearly flat' ranges whose weights are neighbouring f32 values): card-pool ranges (frequent player-player blocking, pools may contain flop cards), one player of any size up to 1326, small free ranges, two identical ranges, 'blocker' ranges (2-51 combos that all contain one card), 'elimination' tables (a known hand kills combos of the other seats, whose survivors come from a five-card pool), narrow beside wide (127/128/129/255/256/257/300/511/512/513/1023/1024/1025/1325/1326/random); tiny weights (around 2^-20..2^-24) when there are <= 4 players; sizes cut to a slot budget (cost bound). Oracle: multiset of yielded deals == reference enumeration (every legal deal once, nothing else), board = flop in order + turn/river, hole cards in player order, probability == product of the chosen weights (<= 4 players: exactly one of the f32 values some order/association of the multiplications gives, for one player the weight itself; more players: within (n+1) roundings), all cards distinct. Stream parsed_ranges: 1-3 players whose ranges are PARSED from generated token lists with overlapping tokens (the range's insertion history differs from a collected range of the same contents); same oracle. Stream huge_prefix: 3 ranges of 300-1326 combos each or 4 of up to 160 (up to 2.3e9 slots per position, far too large to drain): the first 1-3000 showdowns must be legal, distinct, ordered by position, start at the first position that has a legal deal, carry the right probability, and there must be as many of them as the window provably holds. Non-trivial = the reference excluded >= 1 candidate deal because two players collide AND some player has >= 2 combos; distinct by configuration.".into();
    ctx.assumptions = vec![
        "turn/river order inside the board is not demanded here (C04 does)".into(),
        "weights in {0} U [2^-10,1] (and a few values down to 2^-24 when there are <= 4 players) so that the product cannot leave the normal f32 range".into(),
    ];
    let budget = ctx.tier.pick(2_000_000u128, 12_000_000u128);
    let cases = ctx.tier.pick(1200, 12_000);
    ctx.run_random_brief(StreamCfg::new("configurations", CLASSES, cases).shrink(200), || strategy(budget), check, |c| c.brief());
    for (c, d) in [("player_player_collision", 4), ("range_overlaps_flop", 10), ("range_over_255", 20), ("three_plus_players", 8), ("weights_not_1", 4)] {
        ctx.require_class("configurations", c, cases / d);
    }
    let cases = ctx.tier.pick(400, 8_000);
    ctx.run_random_brief(StreamCfg::new("parsed_ranges", CLASSES, cases).shrink(100), text_strategy, check_text, |c| json!({"flop": cnames(&c.flop), "ranges": c.lists.iter().map(crate::props::c05::list_text).collect::<Vec<_>>()}));
    ctx.require_class("parsed_ranges", "combo_named_by_two_tokens", cases / 14);
    let cases = ctx.tier.pick(160, 3_000);
    ctx.run_random_brief(StreamCfg::new("huge_prefix", PREFIX_CLASSES, cases).shrink(40), || prefix_strategy(false), check_prefix, |c| json!({"cfg": c.cfg.brief(), "take": c.take}));
    ctx.require_class("huge_prefix", "window_slots_over_2_32", cases / 4);
    if ctx.tier == Tier::Thorough && !ctx.failed() {
        crate::fuzzrun::campaign(ctx, "fz_eval", 8_000, 16, 512);
    }
}

pub fn replay(stream: &str, path: &str, case: &Value) -> i32 {
    if stream == "parsed_ranges" {
        return replay_case::<TextCase>("C02", path, case, check_text);
    }
    if stream == "huge_prefix" {
        return replay_case::<PrefixCase>("C02", path, case, check_prefix);
    }
    replay_case::<Config>("C02", path, case, check)
}
