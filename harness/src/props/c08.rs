//! C08 — enumeration always terminates, in bounded (2 MiB) stack, without panicking, in debug and
//! release builds.  The evaluator is drained in a child process (one per case and profile) on a
//! thread with a 2 MiB stack; a crash, panic or over-production of the child is the violation.

use crate::cards::*;
use crate::evalmodel::*;
use crate::runner::*;
use crate::vensure;
use proptest::prelude::*;
use serde_json::{json, Value};
use std::io::Write;
use std::process::{Command, Stdio};
use std::sync::atomic::{AtomicU64, Ordering};
use std::time::{Duration, Instant};

pub static WATCHDOG_HITS: AtomicU64 = AtomicU64::new(0);
pub static MISSING_CHILD: AtomicU64 = AtomicU64::new(0);

pub const PROFILES: [&str; 2] = ["release", "dbgchk"];

fn child_path(profile: &str) -> String {
    format!("{}/harness/target/{}/c08_child", verif_dir(), profile)
}

pub enum ChildOut {
    Ok(u64),
    Over,
    Panic(String),
    Died(String),
    Watchdog,
    Missing,
}

/// how the child consumes the iterator (a pure function of the configuration)
pub fn style_of(cfg: &Config) -> u64 {
    fp_of(&format!("{:?}", cfg)) % 4
}
/// configurations far too large to drain (and not empty by construction): first showdowns only
pub fn take_of(cfg: &Config) -> Option<u64> {
    if cfg.slots() > 1u128 << 40 && cfg.ranges.iter().all(|r| !r.combos.is_empty()) {
        Some(5)
    } else {
        None
    }
}

pub fn run_child(profile: &str, cfg: &Config, limit: u64) -> ChildOut {
    let path = child_path(profile);
    if !std::path::Path::new(&path).exists() {
        return ChildOut::Missing;
    }
    let mut child = match Command::new(&path).stdin(Stdio::piped()).stdout(Stdio::piped()).stderr(Stdio::piped()).spawn() {
        Ok(c) => c,
        Err(_) => return ChildOut::Missing,
    };
    {
        let mut si = child.stdin.take().unwrap();
        let line = json!({"id": 1, "cfg": cfg, "limit": limit, "style": style_of(cfg), "take": take_of(cfg)}).to_string();
        let _ = si.write_all(line.as_bytes());
        let _ = si.write_all(b"\n");
    }
    // watchdog: generous (debug builds are ~30x slower); a hit is "inconclusive", never a violation
    let slots = if take_of(cfg).is_some() { 0 } else { cfg.slots().min(u64::MAX as u128) as u64 };
    let budget = Duration::from_secs(60) + Duration::from_micros(slots.saturating_mul(if profile == "release" { 5 } else { 100 }));
    let t0 = Instant::now();
    loop {
        match child.try_wait() {
            Ok(Some(_)) => break,
            Ok(None) => {
                if t0.elapsed() > budget {
                    let _ = child.kill();
                    let _ = child.wait();
                    return ChildOut::Watchdog;
                }
                std::thread::sleep(Duration::from_micros(300));
            }
            Err(_) => return ChildOut::Died("wait failed".into()),
        }
    }
    let out = child.wait_with_output().unwrap();
    let so = String::from_utf8_lossy(&out.stdout).to_string();
    let se = String::from_utf8_lossy(&out.stderr).to_string();
    for l in so.lines() {
        let mut it = l.splitn(3, ' ');
        match (it.next(), it.next(), it.next()) {
            (Some("OK"), Some(_), Some(n)) => return ChildOut::Ok(n.trim().parse().unwrap_or(u64::MAX)),
            (Some("OVER"), _, _) => return ChildOut::Over,
            (Some("PANIC"), Some(_), m) => return ChildOut::Panic(m.unwrap_or("").to_string()),
            _ => {}
        }
    }
    use std::os::unix::process::ExitStatusExt;
    let sig = out.status.signal();
    let mut tail: String = se.lines().filter(|l| !l.trim().is_empty()).collect::<Vec<_>>().join(" | ");
    if tail.len() > 300 {
        tail.truncate(300);
    }
    if se.contains("overflowed its stack") || sig == Some(11) {
        ChildOut::Died(format!("stack overflow on the 2 MiB thread (signal {:?}): {}", sig, tail))
    } else {
        ChildOut::Died(format!("child ended without a result (status {:?}, signal {:?}): {}", out.status.code(), sig, tail))
    }
}

/// Order-independent lower bound of the longest run of consecutive blocked slots: consecutive
/// positions inside the window at which some player has no live combo, times the slot count per
/// position.
pub fn blocked_run_lower_bound(cfg: &Config) -> u64 {
    let deck = deck49(&cfg.flop);
    let per_pos: u64 = cfg.ranges.iter().fold(1u64, |a, r| a.saturating_mul(r.combos.len() as u64));
    if cfg.ranges.iter().any(|r| r.combos.is_empty()) {
        return 0;
    }
    let (from, to) = match cfg.scope {
        Some((a, b, c, d)) => ((a, b), (c, d)),
        None => ((0, 1), (48, 49)),
    };
    let mut best = 0u64;
    let mut cur = 0u64;
    for t in 0..48u8 {
        for r in (t + 1)..49u8 {
            if (t, r) < from || (t, r) >= to {
                continue;
            }
            let (ct, cr) = (deck[t as usize], deck[r as usize]);
            let dead = cfg.ranges.iter().any(|rg| {
                rg.combos.iter().all(|c| {
                    let bad = |x: u8| x == ct || x == cr || cfg.flop.contains(&x);
                    bad(c.0) || bad(c.1)
                })
            });
            if dead {
                cur = cur.saturating_add(per_pos);
                best = best.max(cur);
            } else {
                cur = 0;
            }
        }
    }
    best
}

pub fn check_profiles(cfg: &Config, profiles: &[&str]) -> CheckResult {
    vensure!(cfg.valid(), "bad-case", "invalid configuration");
    let any_empty = cfg.ranges.iter().any(|r| r.combos.is_empty());
    let limit = cfg.slots().min(1u128 << 62) as u64;
    for profile in profiles {
        match run_child(profile, cfg, limit) {
            ChildOut::Ok(n) => {
                if let Some(k) = take_of(cfg) {
                    vensure!(n == k, "prefix-short", "[{}] {} ranges of sizes {:?} hold far more than {} legal deals, but the enumeration ended after {} showdowns", profile, cfg.ranges.len(), cfg.ranges.iter().map(|r| r.combos.len()).collect::<Vec<_>>(), k, n);
                }
                vensure!(!any_empty || n == 0, "empty-range-yields", "[{}] a player has an empty range but the enumeration yielded {} showdowns", profile, n);
            }
            ChildOut::Over => return Err(Fail::new("over-production", format!("[{}] enumeration yielded more than {} showdowns (the number of odometer slots): it does not terminate properly", profile, limit))),
            ChildOut::Panic(m) => {
                let loc = m.rsplit(" at ").next().unwrap_or("?").to_string();
                return Err(Fail::new(format!("panic@{}", loc), format!("[{} build] draining the evaluator panicked: {} (range sizes {:?}, scope {:?})", profile, m, cfg.ranges.iter().map(|r| r.combos.len()).collect::<Vec<_>>(), cfg.scope)));
            }
            ChildOut::Died(m) => {
                let sig = if m.starts_with("stack overflow") { "stack-overflow" } else { "child-crash" };
                return Err(Fail::new(sig, format!("[{} build] {} (range sizes {:?}, scope {:?}, lower bound of the longest blocked run {})", profile, m, cfg.ranges.iter().map(|r| r.combos.len()).collect::<Vec<_>>(), cfg.scope, blocked_run_lower_bound(cfg))));
            }
            ChildOut::Watchdog => {
                WATCHDOG_HITS.fetch_add(1, Ordering::Relaxed);
            }
            ChildOut::Missing => {
                MISSING_CHILD.fetch_add(1, Ordering::Relaxed);
            }
        }
    }
    let run = blocked_run_lower_bound(cfg);
    let sizes: Vec<usize> = cfg.ranges.iter().map(|r| r.combos.len()).collect();
    let special = sizes.iter().any(|s| matches!(*s, 0 | 255 | 256 | 257) || *s >= 512) || sizes.len() >= 24;
    let mut cls = 0u64;
    if run >= 10_000 {
        cls |= 1;
    }
    if run >= 100_000 {
        cls |= 2;
    }
    if any_empty {
        cls |= 4;
    }
    if sizes.iter().any(|s| *s > 255) {
        cls |= 8;
    }
    if sizes.iter().any(|s| *s % 256 == 0 && *s > 0) {
        cls |= 16;
    }
    if sizes.len() >= 3 {
        cls |= 32;
    }
    if sizes.len() >= 24 {
        cls |= 128;
    }
    if sizes.len() >= 128 {
        cls |= 256;
    }
    if sizes.len() >= 30_000 {
        cls |= 1024;
    }
    if any_empty && sizes.iter().fold(1f64, |a, s| a * (*s).max(1) as f64) >= 4294967296.0 {
        cls |= 512;
    }
    if cfg.scope.is_none() && take_of(cfg).is_none() {
        cls |= 64;
    }
    if take_of(cfg).is_some() {
        cls |= 2048;
    }
    Ok(Outcome::new(run >= 10_000 || special || take_of(cfg).is_some(), fp_of(&format!("{:?}", cfg)), cls))
}

pub fn check(cfg: &Config) -> CheckResult {
    check_profiles(cfg, &PROFILES)
}

/// very long runs (2^27 .. 2^33 odometer slots) in the optimised build with overflow checks
pub fn check_long(cfg: &Config) -> CheckResult {
    let mut o = check_profiles(cfg, &["optchk"])?;
    o.nontrivial = true;
    o.classes = if cfg.slots() >= 1u128 << 32 { 2 } else { 1 };
    Ok(o)
}
pub const LONG_CLASSES: &[&str] = &["slots_ge_2_27", "slots_ge_2_32"];

/// Two players whose every combo holds one and the same card (so that every deal is blocked and
/// costs no evaluation) beside a third range that sets the length of the run, over all 1176
/// positions: 1176 x 51 x 51 x `third` slots.  With `fourth`, a two-combo player doubles that.
pub fn long_blocked(flop: [u8; 3], third: usize, fourth: bool, seed: u64) -> Config {
    let deck = deck49(&flop);
    let card = deck[(seed % 49) as usize];
    let mut ranges = vec![holding(card, 51, seed), holding(card, 51, seed ^ 1), sized_range(third, seed ^ 2, true)];
    if fourth {
        ranges.push(sized_range(2, seed ^ 3, false));
    }
    Config { flop, ranges, scope: None }
}

pub const CLASSES: &[&str] = &["blocked_run_ge_10k", "blocked_run_ge_100k", "empty_range", "range_over_255", "size_multiple_of_256", "three_plus_players", "unscoped_full_drain", "more_players_than_a_deck_seats", "player_count_ge_128", "empty_range_beside_product_over_2_32", "thirty_thousand_plus_players", "product_of_sizes_beyond_2_64_prefix_only"];

/// a range of `size` combos that all contain `card` (max 51)
fn holding(card: u8, size: usize, seed: u64) -> RangeSpec {
    let mut others: Vec<u8> = (0..52u8).filter(|c| *c != card).collect();
    let mut x = mix64(seed);
    for i in (1..others.len()).rev() {
        x = mix64(x);
        others.swap(i, (x % (i as u64 + 1)) as usize);
    }
    others.truncate(size.clamp(1, 51));
    RangeSpec { combos: others.iter().map(|o| { let p = norm_pair(card, *o); (p.0, p.1, 1.0) }).collect() }
}

fn astronomic(flop: [u8; 3], n: usize, sizes: &[usize], seed: u64) -> Config {
    let deck = deck49(&flop);
    let mut used: u64 = 1 << deck[0] | 1 << deck[1];
    for c in flop {
        used |= 1 << c;
    }
    let mut ranges: Vec<RangeSpec> = vec![];
    for i in 0..n {
        let mut placed = false;
        for t in 0..300u64 {
            let r = sized_range(sizes[i % sizes.len()], seed.wrapping_add(i as u64 * 1_000_003 + t), true);
            if i + 1 == n {
                ranges.push(r);
                placed = true;
                break;
            }
            let h = r.to_espada();
            let Some((first, _)) = h.card_pairs().iter().next() else { continue };
            let (a, b) = (cid_of(&first[0]), cid_of(&first[1]));
            if used >> a & 1 == 0 && used >> b & 1 == 0 {
                used |= 1 << a | 1 << b;
                ranges.push(r);
                placed = true;
                break;
            }
        }
        if !placed {
            break;
        }
    }
    Config { flop, ranges, scope: None }
}

pub fn strategy(slot_budget: u128) -> impl Strategy<Value = Config> {
    let special = prop_oneof![Just(1usize), Just(2usize), Just(255usize), Just(256usize), Just(257usize), Just(511usize), Just(512usize), Just(513usize), Just(768usize), Just(1326usize), 100usize..1326];
    let special2 = prop_oneof![Just(0usize), Just(1usize), Just(2usize), Just(255usize), Just(256usize), Just(257usize), Just(511usize), Just(512usize), Just(513usize), Just(1024usize), Just(1326usize)];
    prop_oneof![
        // A: narrow (holding the first/second deck card) beside wide, window = first turn rows
        4 => (flop_strategy(), 0usize..2, 1usize..=3, special.clone(), any::<u64>(), any::<bool>(), 1u8..=2, any::<bool>()).prop_map(|(flop, pos, nsz, wsz, seed, wide_first, rows, w)| {
            let deck = deck49(&flop);
            let narrow = holding(deck[pos], nsz, seed);
            let wide = sized_range(wsz, seed ^ 0x55, w);
            Config { flop, ranges: if wide_first { vec![wide, narrow] } else { vec![narrow, wide] }, scope: Some((0, 1, rows, rows + 1)) }
        }),
        // B: narrow / wide / wide
        2 => (flop_strategy(), 1usize..=2, 20usize..160, 20usize..160, any::<u64>(), 0usize..3).prop_map(|(flop, nsz, a, b, seed, seat)| {
            let deck = deck49(&flop);
            let narrow = holding(deck[0], nsz, seed);
            let mut ranges = vec![sized_range(a, seed ^ 1, false), sized_range(b, seed ^ 2, true)];
            ranges.insert(seat, narrow);
            Config { flop, ranges, scope: Some((0, 1, 1, 2)) }
        }),
        // C: one player, special sizes, first rows / everything / windows at the very end of the deck
        3 => (flop_strategy(), special2, any::<u64>(), 0u8..8).prop_map(|(flop, size, seed, w)| {
            let scope = match w {
                0 | 1 | 2 => None,
                3 | 4 => Some((0, 1, 3, 4)),
                5 => Some((48, 49, 48, 49)),
                6 => Some((47, 48, 48, 49)),
                _ => Some((45, 48, 47, 48)),
            };
            Config { flop, ranges: vec![sized_range(size, seed, true)], scope }
        }),
        // D: an empty range at some seat
        3 => (flop_strategy(), proptest::collection::vec(prop_oneof![Just(0usize), Just(0usize), 1usize..6, Just(300usize)], 1..=4), any::<u64>(), 0usize..4, any::<bool>()).prop_map(|(flop, sizes, seed, seat, full)| {
            let mut ranges: Vec<RangeSpec> = sizes.iter().enumerate().map(|(i, s)| if *s == 0 { RangeSpec { combos: vec![] } } else { sized_range(*s, seed ^ i as u64, false) }).collect();
            let k = seat % ranges.len();
            ranges[k] = RangeSpec { combos: vec![] };
            Config { flop, ranges, scope: if full { None } else { Some((0, 1, 2, 3)) } }
        }),
        // E: ranges made only of combos that contain a flop card (everything blocked)
        2 => (flop_strategy(), 1usize..=51, 1usize..=6, any::<u64>(), any::<bool>()).prop_map(|(flop, a, b, seed, two)| {
            let mut ranges = vec![holding(flop[0], a, seed)];
            if two {
                ranges.push(holding(flop[1], b, seed ^ 9));
            }
            Config { flop, ranges, scope: None }
        }),
        // G: very many players (far more than a deck can seat), single-combo ranges so that the
        //    walk stays 1176 positions long; counts around the u8 / i8 boundaries
        2 => (flop_strategy(), prop_oneof![Just(23usize), Just(24usize), Just(26usize), Just(52usize), Just(127usize), Just(128usize), Just(129usize), Just(255usize), Just(256usize), Just(257usize), Just(300usize), 7usize..130], any::<u64>(), any::<bool>(), any::<bool>()).prop_map(|(flop, n, seed, full, one_double)| {
            let mut ranges: Vec<RangeSpec> = (0..n).map(|i| sized_range(1, seed.wrapping_add(i as u64 * 7919), false)).collect();
            if one_double {
                ranges[n / 2] = sized_range(2, seed ^ 0xabc, true);
            }
            Config { flop, ranges, scope: if full { None } else { Some((0, 1, 2, 3)) } }
        }),
        // I: absurdly many players (tens of thousands) in a two-position window: the work per
        //    next() call - and any recursion over players - grows with the player count
        1 => (flop_strategy(), prop_oneof![Just(1_000usize), Just(30_000usize), Just(65_536usize), Just(100_000usize)], any::<u64>()).prop_map(|(flop, n, seed)| {
            let a = sized_range(1, seed, false);
            let b = sized_range(1, seed ^ 0x9999, false);
            let ranges: Vec<RangeSpec> = (0..n).map(|i| if i % 2 == 0 { a.clone() } else { b.clone() }).collect();
            Config { flop, ranges, scope: Some((0, 1, 0, 3)) }
        }),
        // H: several big ranges (their sizes multiply past 2^32 / 2^64) and one empty range: the
        //    enumeration must simply be empty
        2 => (flop_strategy(), 3usize..=24, prop_oneof![Just(1326usize), Just(1024usize), Just(256usize), Just(65536usize), 16usize..1326], any::<u64>(), 0usize..25, any::<bool>()).prop_map(|(flop, n, size, seed, seat, full)| {
            let big = sized_range(size.min(1326), seed, false);
            let mut ranges: Vec<RangeSpec> = (0..n).map(|_| big.clone()).collect();
            let k = if seat >= n { n - 1 } else { seat };
            ranges[k] = RangeSpec { combos: vec![] };
            Config { flop, ranges, scope: if full { None } else { Some((0, 1, 2, 3)) } }
        }),
        // J: a full table of big ranges (6-12 seats of 100-1000 combos: the product of the sizes is
        //    beyond 2^64): size_hint(), a collect of the first two and three more showdowns.  The
        //    first entries (in the library's iteration order) of all seats but the last are made
        //    disjoint from each other, the flop and the first two deck cards, so that the first
        //    legal deal is a few odometer steps away
        2 => (flop_strategy(), 6usize..=12, proptest::collection::vec(100usize..=1000, 12), any::<u64>()).prop_map(|(flop, n, sizes, seed)| astronomic(flop, n, &sizes, seed)),
        // F: moderate pool / free configurations, full drains
        3 => pool_config(2..=4, 6..=10, 5),
        2 => free_config(1..=3, 1, 5),
    ]
    .prop_map(move |mut c| {
        if c.ranges.iter().any(|r| r.combos.is_empty()) && c.ranges.len() >= 3 {
            return c; // an empty range makes the run empty: nothing to bound
        }
        if c.ranges.len() >= 6 && c.ranges.iter().all(|r| r.combos.len() >= 100) {
            return c; // shape J: only a prefix is taken
        }
        // cost bound on the window actually walked
        let positions: u128 = match c.scope {
            None => 1176,
            Some((a, _, cc, _)) => ((cc - a) as u128 * 48).max(48),
        };
        let per_pos_budget = (slot_budget / positions).max(1);
        loop {
            let per_pos: u128 = c.ranges.iter().map(|r| r.combos.len().max(1) as u128).product();
            if per_pos <= per_pos_budget {
                break;
            }
            let (i, _) = c.ranges.iter().enumerate().max_by_key(|(_, r)| r.combos.len()).unwrap();
            let len = c.ranges[i].combos.len();
            if len <= 1 {
                break;
            }
            let target = ((per_pos_budget * len as u128 / per_pos) as usize).clamp(1, len - 1);
            c.ranges[i].combos.truncate(target);
        }
        c
    })
}

pub fn run(ctx: &mut Ctx) {
    ctx.rule = "proptest configurations as data, each drained in a child process on a 2 MiB thread, once per build profile (release: wrapping arithmetic; dbgchk: espada at opt-level 0 with overflow checks and debug assertions): narrow range holding the first deck cards beside wide ranges inside a window of the first turn rows (longest blocked runs), narrow/wide/wide, one player of sizes {0,1,2,255,256,257,511,512,513,768,1024,1326,random} (full drains, first rows, windows at the very end of the deck incl. the empty scope on the terminal position), empty range at any seat, ranges consisting only of flop-card combos, 7-300 single-combo players (23/24/127/128/129/255/256/257 among them), 1,000-100,000 single-combo players in a two-position window, 3-24 big ranges (sizes multiplying past 2^32 and 2^64) with one empty range at any seat, full tables of 6-12 ranges of 100-1000 combos without an empty one (product beyond 2^64: size_hint(), a collect of the first two and three more showdowns), moderate full drains; stream long_drains: runs of 2^27 (thorough: also 2^33) odometer slots in which every deal is blocked (two 51-combo players holding one and the same card beside a third range), in an optimised build of espada with overflow checks and debug assertions (profile optchk). The child consumes the iterator in one of four ways chosen by the configuration: for loop, size_hint() before every next(), collect(), nth() with steps 0-3. Violation = child panics / dies on a signal (stack overflow) / yields more showdowns than odometer slots / yields anything with an empty range. Non-trivial = order-independent lower bound of the longest blocked run >= 10,000 slots, or a size in {0,255,256,257,>=512}, or >= 24 players; distinct by configuration.".into();
    ctx.assumptions = vec![
        "a hang that yields nothing can only hit the watchdog (exit 2, inconclusive), never a violation".into(),
        "debug = cargo's dev settings for espada (opt-level 0, overflow checks, debug assertions); third-party crates are optimised".into(),
    ];
    for p in PROFILES {
        if !std::path::Path::new(&child_path(p)).exists() {
            ctx.unhealthy.push(format!("child binary for profile {} is missing: {}", p, child_path(p)));
        }
    }
    if !ctx.unhealthy.is_empty() {
        return;
    }
    let budget = ctx.tier.pick(400_000u128, 3_000_000u128);
    let cases = ctx.tier.pick(480, 6_000);
    ctx.run_random_brief(StreamCfg::new("child_drains", CLASSES, cases).shrink(120), || strategy(budget), check, |c| c.brief());
    for (c, d) in [("blocked_run_ge_10k", 8), ("empty_range", 10), ("range_over_255", 8), ("size_multiple_of_256", 30), ("unscoped_full_drain", 6), ("more_players_than_a_deck_seats", 30), ("player_count_ge_128", 60), ("product_of_sizes_beyond_2_64_prefix_only", 30)] {
        ctx.require_class("child_drains", c, cases / d);
    }
    // very long runs: counters that overflow only after 2^27 (quick) or 2^32 (thorough) deals
    if std::path::Path::new(&child_path("optchk")).exists() {
        let thorough = ctx.tier == Tier::Thorough;
        let cases = ctx.tier.pick(2, 4);
        ctx.run_random_brief(
            StreamCfg::new("long_drains", LONG_CLASSES, cases).shrink(0),
            move || (flop_strategy(), any::<u64>(), any::<bool>()).prop_map(move |(flop, seed, big)| if thorough && big { long_blocked(flop, 1326, true, seed) } else { long_blocked(flop, 45 + (seed % 8) as usize, false, seed) }),
            check_long,
            |c| json!({"range_sizes": c.ranges.iter().map(|r| r.combos.len()).collect::<Vec<_>>(), "slots": c.slots().to_string()}),
        );
    } else {
        ctx.unhealthy.push(format!("child binary for profile optchk is missing: {}", child_path("optchk")));
    }
    let wd = WATCHDOG_HITS.load(Ordering::Relaxed);
    let ms = MISSING_CHILD.load(Ordering::Relaxed);
    ctx.extra.insert("watchdog_hits".into(), json!(wd));
    ctx.extra.insert("profiles".into(), json!(PROFILES));
    if wd > 0 {
        ctx.unhealthy.push(format!("{} child runs hit the watchdog (inconclusive)", wd));
    }
    if ms > 0 {
        ctx.unhealthy.push(format!("{} child runs could not start", ms));
    }
}

pub fn replay(stream: &str, path: &str, case: &Value) -> i32 {
    if stream == "long_drains" {
        return replay_case::<Config>("C08", path, case, check_long);
    }
    replay_case::<Config>("C08", path, case, check)
}
