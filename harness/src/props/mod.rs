use crate::runner::{Ctx, Tier};
use serde_json::Value;

pub mod c13;
pub mod c14;

/// Properties served by the `vcheck` binary.
pub const IDS: &[&str] = &["C13", "C14"];

pub fn run(prop: &str, tier: Tier) -> i32 {
    let mut ctx = Ctx::new(prop, tier);
    match prop {
        "C13" => c13::run(&mut ctx),
        "C14" => c14::run(&mut ctx),
        _ => {
            eprintln!("unknown property {}", prop);
            return 2;
        }
    }
    ctx.finish()
}

pub fn replay(prop: &str, path: &str) -> i32 {
    let txt = match std::fs::read_to_string(path) {
        Ok(t) => t,
        Err(e) => {
            eprintln!("cannot read replay {}: {}", path, e);
            return 2;
        }
    };
    let v: Value = match serde_json::from_str(&txt) {
        Ok(v) => v,
        Err(e) => {
            eprintln!("replay {} is not JSON: {}", path, e);
            return 2;
        }
    };
    let stream = v.get("stream").and_then(|s| s.as_str()).unwrap_or("").to_string();
    let case = v.get("case").cloned().unwrap_or(Value::Null);
    match prop {
        "C13" => c13::replay(&stream, path, &case),
        "C14" => c14::replay(&stream, path, &case),
        _ => {
            eprintln!("unknown property {}", prop);
            2
        }
    }
}
