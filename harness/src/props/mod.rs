use crate::runner::{Ctx, Tier};
use serde_json::Value;

pub mod c01;
pub mod c02;
pub mod c03;
pub mod c04;
pub mod c05;
pub mod c06;
pub mod c08;
pub mod c09;
pub mod c11;
pub mod c12;
pub mod c13;
pub mod c14;
pub mod c15;
pub mod c17;

/// Properties served by the `vcheck` binary.
pub const IDS: &[&str] = &["C01", "C02", "C03", "C04", "C05", "C06", "C07", "C08", "C09", "C10", "C11", "C12", "C13", "C14", "C15", "C17"];

/// Committed regression replays (/verif/regressions/<ID>-*.json): shrunk failing cases of
/// defects found earlier; re-run first, bypassing the generators.
fn regressions(prop: &str) -> (u64, Vec<String>) {
    let dir = format!("{}/regressions", crate::runner::verif_dir());
    let mut n = 0;
    let mut failed = vec![];
    let mut files: Vec<_> = std::fs::read_dir(&dir)
        .map(|d| d.filter_map(|e| e.ok()).map(|e| e.path()).collect())
        .unwrap_or_default();
    files.sort();
    for f in files {
        let name = f.file_name().and_then(|n| n.to_str()).unwrap_or("").to_string();
        if !name.starts_with(&format!("{}-", prop)) || !name.ends_with(".json") {
            continue;
        }
        n += 1;
        let path = f.to_string_lossy().to_string();
        let code = replay(prop, &path);
        if code == 1 {
            failed.push(path);
        }
    }
    (n, failed)
}

pub fn run(prop: &str, tier: Tier) -> i32 {
    let mut ctx = Ctx::new(prop, tier);
    let (nreg, regfailed) = regressions(prop);
    ctx.extra.insert("regression_replays_run".into(), serde_json::json!(nreg));
    ctx.extra.insert("regression_replays_failed".into(), serde_json::json!(regfailed));
    let reg_fail = !regfailed.is_empty();
    match prop {
        "C01" => c01::run(&mut ctx, c01::Mode::Index),
        "C02" => c02::run(&mut ctx),
        "C03" => c03::run(&mut ctx),
        "C04" => c04::run(&mut ctx),
        "C05" => c05::run(&mut ctx),
        "C06" => c06::run(&mut ctx),
        "C07" => c01::run(&mut ctx, c01::Mode::Category),
        "C08" => c08::run(&mut ctx),
        "C09" => c09::run(&mut ctx, c09::Mode::Total),
        "C10" => c09::run(&mut ctx, c09::Mode::Content),
        "C11" => c11::run(&mut ctx),
        "C12" => c12::run(&mut ctx),
        "C13" => c13::run(&mut ctx),
        "C14" => c14::run(&mut ctx),
        "C15" => c15::run(&mut ctx),
        "C17" => c17::run(&mut ctx),
        _ => {
            eprintln!("unknown property {}", prop);
            return 2;
        }
    }
    let code = ctx.finish();
    if reg_fail && code == 0 {
        return 1;
    }
    code
}

pub fn replay(prop: &str, path: &str) -> i32 {
    if path.ends_with(".bin") {
        return crate::fuzzrun::replay_bytes(prop, path);
    }
    let txt = match std::fs::read_to_string(path) {
        Ok(t) => t,
        Err(e) => {
            eprintln!("cannot read replay {}: {}", path, e);
            return 2;
        }
    };
    let v: Value = match serde_json::from_str(&txt) {
        Ok(v) => v,
        Err(e) => {
            eprintln!("replay {} is not JSON: {}", path, e);
            return 2;
        }
    };
    let stream = v.get("stream").and_then(|s| s.as_str()).unwrap_or("").to_string();
    let case = v.get("case").cloned().unwrap_or(Value::Null);
    match prop {
        "C01" => c01::replay(c01::Mode::Index, &stream, path, &case),
        "C02" => c02::replay(&stream, path, &case),
        "C03" => c03::replay(&stream, path, &case),
        "C04" => c04::replay(&stream, path, &case),
        "C05" => c05::replay(&stream, path, &case),
        "C06" => c06::replay(&stream, path, &case),
        "C07" => c01::replay(c01::Mode::Category, &stream, path, &case),
        "C08" => c08::replay(&stream, path, &case),
        "C09" => c09::replay(c09::Mode::Total, &stream, path, &case),
        "C10" => c09::replay(c09::Mode::Content, &stream, path, &case),
        "C11" => c11::replay(&stream, path, &case),
        "C12" => c12::replay(&stream, path, &case),
        "C13" => c13::replay(&stream, path, &case),
        "C14" => c14::replay(&stream, path, &case),
        "C15" => c15::replay(&stream, path, &case),
        "C17" => c17::replay(&stream, path, &case),
        _ => {
            eprintln!("unknown property {}", prop);
            2
        }
    }
}
