//! C06 — formatting a range and parsing the text back gives the same range (and token).
//! Also home of the row-pattern range generator shared with C12 and C17.

use crate::cards::*;
use crate::notation::*;
use crate::runner::*;
use crate::vensure;
use espada::hand_range::{CardPair, HandRange, HandRangeToken, HandRangeTokenKind, RankPair};
use proptest::prelude::*;
use serde::{Deserialize, Serialize};
use serde_json::{json, Value};

/// A range as data: combos with weights (each combo once).  Weights in [0,1], no -0.0.
#[derive(Clone, Debug, Serialize, Deserialize, PartialEq)]
pub struct RangeCase {
    pub combos: Vec<(u8, u8, f32)>,
}
impl RangeCase {
    pub fn map(&self) -> RangeMap {
        self.combos.iter().map(|c| (norm_pair(c.0, c.1), c.2)).collect()
    }
    pub fn valid(&self) -> bool {
        let m = self.map();
        m.len() == self.combos.len() && self.combos.iter().all(|c| c.0 != c.1 && c.0 < 52 && c.1 < 52 && c.2 >= 0.0 && c.2 <= 1.0 && c.2.to_bits() != (-0.0f32).to_bits())
    }
    pub fn from_map(m: &RangeMap) -> RangeCase {
        RangeCase { combos: m.iter().map(|(k, v)| (k.0, k.1, *v)).collect() }
    }
}

/// weights that are stored and printed only: palette + any f32 bit pattern in [0, 1]
/// The only f32 in (0,1] whose shortest decimal text parses to a different f32 when the text is
/// first parsed as f64 and then narrowed (double rounding); found by a sweep of all 1,065,353,216
/// bit patterns with std only, re-verified at start-up by `witness_self_check`.
pub const DOUBLE_ROUNDING_WITNESS: u32 = 0x15ae_43fd;
pub fn witness_self_check() {
    let w = f32::from_bits(DOUBLE_ROUNDING_WITNESS);
    let s = format!("{}", w);
    assert_eq!(s.parse::<f32>().unwrap().to_bits(), DOUBLE_ROUNDING_WITNESS);
    assert_ne!((s.parse::<f64>().unwrap() as f32).to_bits(), DOUBLE_ROUNDING_WITNESS, "not a double-rounding witness any more");
}

pub fn weight_any() -> impl Strategy<Value = f32> {
    prop_oneof![
        1 => Just(f32::from_bits(DOUBLE_ROUNDING_WITNESS)),
        4 => Just(1.0f32),
        2 => Just(0.5f32),
        1 => Just(0.0f32),
        1 => Just(0.25f32),
        1 => Just(0.1f32),
        4 => (0u32..=0x3f80_0000u32).prop_map(f32::from_bits),
        1 => (0u32..=0x007f_ffffu32).prop_map(f32::from_bits), // subnormals
        1 => (0x3f7f_fff0u32..=0x3f80_0000u32).prop_map(f32::from_bits), // just below 1
    ]
}

/// Row-pattern construction.  `cells[i]` for the 169 cells in row order: 0 absent, 1 weight a,
/// 2 weight b, 3 weight c; rows not selected by `row_mask` stay empty; `partials` make up to
/// `max_partial` cells partial (a sub-pattern of their combos with mixed weights).
pub fn build_range(row_mask: u32, cells: &[u8], w: [f32; 3], partials: &[(u8, u32)], max_partial: usize) -> RangeMap {
    let mut m = RangeMap::new();
    let mut i = 0;
    let all = rows();
    for (ri, row) in all.iter().enumerate() {
        for c in row {
            let st = cells[i % cells.len()];
            i += 1;
            if row_mask >> ri & 1 == 0 || st == 0 {
                continue;
            }
            for p in c.combos() {
                m.insert(p, w[(st - 1) as usize % 3]);
            }
        }
    }
    let flat: Vec<Cell> = all.into_iter().flatten().collect();
    for (ci, bits) in partials.iter().take(max_partial) {
        let c = flat[*ci as usize % flat.len()];
        let mut b = *bits;
        let combos = c.combos();
        let mut any_change = false;
        for p in &combos {
            match b & 3 {
                0 => {
                    any_change |= m.remove(p).is_some();
                }
                1 => {
                    m.insert(*p, w[0]);
                }
                2 => {
                    m.insert(*p, w[1]);
                }
                _ => {}
            }
            b >>= 2;
        }
        let _ = any_change;
    }
    m
}

pub fn range_strategy(max_partial: usize) -> impl Strategy<Value = RangeCase> {
    let cell = prop_oneof![5 => Just(0u8), 5 => Just(1u8), 3 => Just(2u8), 1 => Just(3u8)];
    let row_mask = prop_oneof![
        3 => (0u32..(1 << 25), 0u32..(1 << 25)).prop_map(|(a, b)| a & b), // ~25% of rows
        1 => any::<u32>().prop_map(|x| x & 0x1ff_ffff),
        2 => (0usize..25).prop_map(|r| 1u32 << r),
        1 => (0usize..12).prop_map(|h| 0b11u32 << (1 + 2 * h)),
        1 => Just(0x1ff_ffffu32),
    ];
    (row_mask, proptest::collection::vec(cell, 169), [weight_any(), weight_any(), weight_any()], proptest::collection::vec((0u8..169, any::<u32>()), 0..=max_partial.max(1)), any::<bool>(), 0u8..24).prop_map(move |(mask, cells, w, partials, same, special)| {
        let w = if same { [w[0], w[0], w[1]] } else { w };
        // special shapes: every selected cell complete at one weight (whole rows, the full range
        // of all 1326 combos when every row is selected), optionally minus the partial cells
        let mut mask = mask;
        let mut partials = partials;
        let cells: Vec<u8> = match special {
            0 => vec![1u8; 169],
            1 => cells.iter().map(|c| if *c == 0 { 1 } else { *c }).collect(),
            // every combo present, every rank pair complete, two or three different weights
            2 => {
                mask = 0x1ff_ffff;
                partials.clear();
                cells.iter().map(|c| if *c == 0 { 1 } else { *c }).collect()
            }
            // "top-heavy": the suited and offsuit rows of one to three high cards are completely
            // covered, their pocket pairs are partial, the rest is random
            3 | 4 => {
                let mut cs = cells.clone();
                mask |= 1; // pocket row
                let highs: Vec<usize> = partials.iter().take(3).map(|p| p.0 as usize % if special == 3 { 2 } else { 12 }).collect();
                let highs = if highs.is_empty() { vec![0usize] } else { highs };
                // cell index layout follows rows(): 13 pockets, then per high card suited row, offsuit row
                let mut start = 13usize;
                for h in 0..12usize {
                    let len = 12 - h;
                    if highs.contains(&h) {
                        mask |= 0b11 << (1 + 2 * h);
                        for i in 0..(2 * len) {
                            if cs[start + i] == 0 {
                                cs[start + i] = 1 + (i as u8 + h as u8) % 2;
                            }
                        }
                        // partial pocket pair of that rank
                        partials.push((h as u8, 0b01_00_01_10_00_01 ^ (h as u32 * 37)));
                    }
                    start += 2 * len;
                }
                let k = highs.len().min(partials.len());
                partials.rotate_right(k);
                cs
            }
            _ => cells,
        };
        RangeCase::from_map(&build_range(mask, &cells, w, &partials, max_partial.max(3)))
    })
}

pub fn check_range(c: &RangeCase) -> CheckResult {
    vensure!(c.valid(), "bad-case", "range outside the property's domain");
    let m = c.map();
    let r = to_espada(&m);
    vensure!(diff_maps(&m, &espada_map(&r)).is_none(), "from-iter", "HandRange::from_iter does not hold what it was given: {:?}", diff_maps(&m, &espada_map(&r)));
    // call history: in two of three cases another range was formatted into a sink that fails
    // after a few bytes just before (its text must not leak into this one)
    let sel = fp_of(&(m.len(), m.keys().next().copied()));
    if sel % 2 == 0 && m.len() >= 2 {
        // ... or a sibling range was formatted completely: the same combos with the same weights
        // dealt round by one place
        let ws: Vec<f32> = m.values().copied().collect();
        let sib: HandRange = m.keys().enumerate().map(|(i, k)| (e_pair(k.0, k.1), ws[(i + 1) % ws.len()])).collect();
        std::hint::black_box(sib.to_string().len());
    }
    if sel % 3 != 0 {
        format_cut_short(&odd_range(), (sel >> 8) as usize % 40);
    }
    let text = r.to_string();
    let Ok(back) = text.parse::<HandRange>() else {
        return Err(Fail::new("own-text-rejected", format!("range text {:?} is rejected by the parser", text)));
    };
    if let Some(d) = diff_maps(&m, &espada_map(&back)) {
        let mut t = text.clone();
        if t.len() > 400 {
            t.truncate(400);
            t.push_str("...");
        }
        return Err(Fail::new("range-roundtrip", format!("range of {} combos prints as {:?} which parses back differently: {}", m.len(), t, d)));
    }
    vensure!(back == r, "range-roundtrip-eq", "parsed-back range compares unequal although its combos and weights are identical");
    let (complete, left) = split(&m);
    let runs = maximal_runs(&complete);
    let merged = runs.iter().any(|r| r.cells.len() >= 2);
    let non1 = m.values().any(|w| *w != 1.0);
    let mut cls = 0u64;
    if runs.iter().any(|r| r.at_row_top && r.cells.len() >= 2) {
        cls |= 1;
    }
    if runs.iter().any(|r| r.cells.last().map(|c| c.lo == 12).unwrap_or(false) && r.cells.len() >= 2) {
        cls |= 2;
    }
    if runs.windows(2).any(|w| w[0].row == w[1].row && w[0].weight != w[1].weight && w[0].cells.last().map(|c| c.lo + 1) == w[1].cells.first().map(|c| c.lo)) {
        cls |= 4;
    }
    if runs.iter().any(|r| r.row >= 23) {
        cls |= 8;
    }
    if !left.is_empty() {
        cls |= 16;
    }
    if runs.iter().any(|r| !r.at_row_top && r.cells.len() >= 2) {
        cls |= 32;
    }
    if m.is_empty() {
        cls |= 64;
    }
    if m.values().any(|w| *w > 0.0 && *w < 1.0e-5) {
        cls |= 128;
    }
    Ok(Outcome::new((merged && non1) || !left.is_empty(), fp_of(&text), cls))
}
pub const RANGE_CLASSES: &[&str] = &["run_from_row_top", "run_to_deuce", "adjacent_runs_different_weight", "trey_row", "leftover_combos", "run_mid_row", "empty_range", "tiny_weight"];

// ---------------------------------------------------------------------------------------------
// tokens

#[derive(Clone, Debug, Serialize, Deserialize)]
pub struct TokenCase {
    pub tok: Tok,
    pub weight: f32,
}

pub fn espada_token(t: &Tok, w: f32) -> HandRangeToken {
    let rp = |s: bool, a: u8, b: u8| if s { RankPair::Suited(e_rank(a), e_rank(b)) } else { RankPair::Ofsuit(e_rank(a), e_rank(b)) };
    let kind = match *t {
        Tok::Pocket(r) => HandRangeTokenKind::SingleRankPair(RankPair::Pocket(e_rank(r))),
        Tok::PocketPlus(r) => HandRangeTokenKind::BottomClosedRankPairRange(RankPair::Pocket(e_rank(r))),
        Tok::PocketSpan(a, b) => HandRangeTokenKind::DoubleClosedRankPairRange(RankPair::Pocket(e_rank(a)), e_rank(b)),
        Tok::Pair(s, x, y) => HandRangeTokenKind::SingleRankPair(rp(s, x, y)),
        Tok::PairPlus(s, h, k) => HandRangeTokenKind::BottomClosedRankPairRange(rp(s, h, k)),
        Tok::PairSpan(s, h, k1, k2) => HandRangeTokenKind::DoubleClosedRankPairRange(rp(s, h, k1), e_rank(k2)),
        Tok::Combo(a, b) => HandRangeTokenKind::SingleCardPair(CardPair::new(e_card(a), e_card(b))),
    };
    HandRangeToken::new(kind, w)
}

pub fn check_token(c: &TokenCase) -> CheckResult {
    vensure!(c.tok.well_formed() && c.weight >= 0.0 && c.weight <= 1.0 && c.weight.to_bits() != (-0.0f32).to_bits(), "bad-case", "token outside the domain");
    let t = espada_token(&c.tok, c.weight);
    if c.weight.to_bits() % 3 != 0 {
        format_cut_short(&espada_token(&Tok::PocketSpan(3, 7), 0.8125), c.tok.well_formed() as usize + super::c05::shape_ix(&c.tok) as usize);
    }
    let text = t.to_string();
    match text.parse::<HandRangeToken>() {
        Ok(back) => {
            vensure!(back == t, "token-roundtrip", "token {:?} prints as {:?} which parses back as {:?}", t, text, back);
            // bit-identical weight: compare through the expansion
            let w2: Vec<u32> = back.into_iter().map(|(_, w)| w.to_bits()).collect();
            vensure!(w2.iter().all(|b| *b == c.weight.to_bits()), "token-roundtrip-weight", "token text {:?}: weight {} ({:#x}) does not survive", text, c.weight, c.weight.to_bits());
        }
        Err(_) => return Err(Fail::new("token-own-text-rejected", format!("token {:?} prints as {:?} which the token parser rejects", t, text))),
    }
    Ok(Outcome::new(true, hash_str(&text), 1 << super::c05::shape_ix(&c.tok) | if c.weight != 1.0 { 1 << 7 } else { 0 }))
}

pub fn token_weights(tier: Tier) -> Vec<f32> {
    let mut v = vec![1.0, 0.5, 0.0, 0.1, f32::from_bits(DOUBLE_ROUNDING_WITNESS)];
    if tier == Tier::Thorough {
        v.extend_from_slice(&[0.25, 0.333, f32::from_bits(1), f32::from_bits(0x3f7f_ffff), 1.0e-7, 0.7, 0.30000001, f32::MIN_POSITIVE]);
    }
    v
}

/// every absent / weight-a / weight-b pattern of one row (index into rows()), base-3 digits of `code`
pub fn row_pattern(row: usize, code: u64, wa: f32, wb: f32) -> RangeMap {
    let mut m = RangeMap::new();
    let mut x = code;
    for c in &rows()[row] {
        let d = x % 3;
        x /= 3;
        if d == 0 {
            continue;
        }
        for p in c.combos() {
            m.insert(p, if d == 1 { wa } else { wb });
        }
    }
    m
}

/// (row, code) list for the exhaustive row sweeps: rows with at most `max_len` cells
pub fn row_sweep(max_len: usize) -> Vec<(usize, u64)> {
    let mut v = vec![];
    for (ri, row) in rows().iter().enumerate() {
        if row.len() <= max_len {
            for code in 0..3u64.pow(row.len() as u32) {
                v.push((ri, code));
            }
        }
    }
    v
}

pub fn run(ctx: &mut Ctx) {
    witness_self_check();
    ctx.rule = "ranges by row-pattern construction over the 25 rows / 169 rank-pair cells: each cell absent / complete at one of three weights, a random subset of rows active, up to 6 (thorough 10) cells made partial with mixed weights; weights from a palette (so equal-weight neighbours are common) and arbitrary f32 bit patterns in [0,1] incl. subnormals (no -0.0) and the one f32 in (0,1] that is sensitive to double rounding through f64 (0x15ae43fd); dense ranges of (nearly) all 1326 combos with pairwise different, mostly tiny weights (texts of up to 75 KB); exhaustive: every absent/weight-a/weight-b pattern of every row with <= 7 cells (thorough: every row, 3^13 pocket patterns and 3^12..3 per high card and kind). Oracle: to_string().parse() is Ok, equal, and every weight bit-identical. Tokens: every well-formed HandRangeToken::new(kind, w) over all 3,796 token ASTs x weights, text must parse back to an equal token. Two of three range cases are preceded on their thread by a formatting call of another range into a sink that fails after 0-39 bytes; stream long_format_histories: a row pattern formatted, the same row with one cell changed, 230-245 or 65,500-65,515 ranges of another row, then the first range 48 more times - same text, and it parses back. Non-trivial (ranges): text has a merged token and a weight != 1, or a leftover combo; distinct by text.".into();
    ctx.assumptions = vec!["-0.0 is excluded from the weight domain: the parser cannot produce it and it prints as '-0'".into(), "NaN weights are outside [0,1]".into()];
    let mp = ctx.tier.pick(6, 10);
    let cases = ctx.tier.pick(20_000, 300_000);
    ctx.run_random_brief(StreamCfg::new("row_pattern_ranges", RANGE_CLASSES, cases).shrink(300), move || range_strategy(mp), check_range, |c| json!({"combos": c.combos.len(), "text": to_espada(&c.map()).to_string().chars().take(160).collect::<String>()}));
    for (c, d) in [("run_from_row_top", 10), ("run_to_deuce", 10), ("adjacent_runs_different_weight", 10), ("trey_row", 20), ("leftover_combos", 4), ("run_mid_row", 4)] {
        ctx.require_class("row_pattern_ranges", c, cases / d);
    }
    // dense ranges that cannot be merged: (nearly) all 1326 combos with pairwise different, mostly
    // tiny weights - the longest texts the formatter can produce (about 75 KB)
    let cases_dense = ctx.tier.pick(16, 160);
    ctx.run_random_brief(
        StreamCfg::new("dense_unmergeable_ranges", RANGE_CLASSES, cases_dense).shrink(12),
        || {
            (any::<u64>(), 0usize..40, prop_oneof![Just(0u32), Just(1u32), Just(2u32)]).prop_map(|(seed, drop, mode)| {
                let mut m = RangeMap::new();
                let mut x = mix64(seed);
                for (i, p) in all_combos().into_iter().enumerate() {
                    x = mix64(x);
                    if (x % 1326) < drop as u64 {
                        continue;
                    }
                    let w = match mode {
                        // tiny weights with long decimal expansions, all different
                        0 => f32::from_bits(0x0000_0001 + (i as u32) * 7 + ((x >> 16) as u32 & 0xffff)),
                        1 => f32::from_bits(0x0900_0000 + (i as u32) * 4099 + ((x >> 16) as u32 & 0xfff)),
                        _ => f32::from_bits(0x3f00_0000 + (i as u32) * 13),
                    };
                    m.insert(p, w);
                }
                RangeCase::from_map(&m)
            })
        },
        check_range,
        |c| json!({"combos": c.combos.len(), "text_bytes": to_espada(&c.map()).to_string().len()}),
    );
    let sweep = row_sweep(ctx.tier.pick(7, 13));
    let n = sweep.len() as u64;
    ctx.run_enum_brief(
        StreamCfg::new("all_row_patterns", RANGE_CLASSES, n),
        n,
        true,
        |i| {
            let (row, code) = sweep[i as usize];
            RangeCase::from_map(&row_pattern(row, code, 1.0, 0.5))
        },
        check_range,
        |c| json!(to_espada(&c.map()).to_string()),
    );
    let toks = all_tokens();
    let ws = token_weights(ctx.tier);
    let n = (toks.len() * ws.len()) as u64;
    ctx.run_enum_brief(
        StreamCfg::new("all_tokens", super::c05::TOKEN_CLASSES, n),
        n,
        true,
        |i| TokenCase { tok: toks[i as usize / ws.len()].clone(), weight: ws[i as usize % ws.len()] },
        check_token,
        |c| json!(espada_token(&c.tok, c.weight).to_string()),
    );
    let cases = ctx.tier.pick(4_000, 100_000);
    ctx.run_random_brief(
        StreamCfg::new("tokens_any_weight", super::c05::TOKEN_CLASSES, cases),
        || (0usize..3796, weight_any()).prop_map(|(i, w)| TokenCase { tok: all_tokens_cached()[i].clone(), weight: w }),
        check_token,
        |c| json!(espada_token(&c.tok, c.weight).to_string()),
    );
    // long formatting histories on one thread (C17's generator; here the probe texts must also parse back)
    let cases = ctx.tier.pick(32, 600);
    ctx.run_random_brief(StreamCfg::new("long_format_histories", crate::props::c17::CLASSES, cases).shrink(20), crate::props::c17::format_history_strategy, |c| crate::props::c17::check_format_history(c, true), |c| json!({"row": c.row, "fillers": c.fillers, "probes": c.probes}));
    ctx.extra.insert("exhaustive_over".into(), json!(format!("every pattern of every row with <= {} cells ({} ranges); all 3,796 tokens x {} weights", ctx.tier.pick(7, 13), sweep.len(), ws.len())));
    if ctx.tier == Tier::Thorough && !ctx.failed() {
        crate::fuzzrun::campaign(ctx, "fz_range", 1500, 16, 400);
    }
}

pub fn all_tokens_cached() -> &'static Vec<Tok> {
    static T: std::sync::OnceLock<Vec<Tok>> = std::sync::OnceLock::new();
    T.get_or_init(all_tokens)
}

pub fn replay(stream: &str, path: &str, case: &Value) -> i32 {
    match stream {
        "all_tokens" | "tokens_any_weight" => replay_case::<TokenCase>("C06", path, case, check_token),
        "long_format_histories" => replay_case::<crate::props::c17::FormatHistory>("C06", path, case, |c| crate::props::c17::check_format_history(c, true)),
        _ => replay_case::<RangeCase>("C06", path, case, check_range),
    }
}
