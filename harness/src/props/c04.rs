//! C04 — scoped evaluators tile the enumeration: chained scopes reproduce the full run.

use crate::cards::*;
use crate::evalmodel::*;
use crate::runner::*;
use crate::vensure;
use proptest::prelude::*;
use serde::{Deserialize, Serialize};
use serde_json::{json, Value};
use std::sync::Arc;

/// The unscoped run of a configuration, indexed by position.
pub struct FullRun {
    pub cfg: Config,
    pub seq: Seq,
    /// start[p] = index in seq of the first showdown at position >= p (p in 0..=1177)
    pub start: Vec<usize>,
}

impl FullRun {
    pub fn new(cfg: &Config) -> Result<FullRun, Fail> {
        let mut c = cfg.clone();
        c.scope = None;
        let limit = c.slots().min(1 << 40) as usize;
        let seq = run_seq(&c, limit, 0)?;
        for w in seq.windows(2) {
            if w[0].0 > w[1].0 {
                return Err(Fail::new("full-run-order", format!("the unscoped run steps back from position {:?} to {:?}", index_pos(w[0].0), index_pos(w[1].0))));
            }
        }
        let mut start = vec![0usize; 1178];
        let mut i = 0;
        for p in 0..1178usize {
            while i < seq.len() && (seq[i].0 as usize) < p {
                i += 1;
            }
            start[p] = i;
        }
        Ok(FullRun { cfg: c, seq, start })
    }
    pub fn window(&self, from: u16, to: u16) -> &[(u16, u64)] {
        &self.seq[self.start[from as usize]..self.start[to as usize]]
    }
    pub fn empty_at(&self, p: u16) -> bool {
        p >= 1176 || self.start[p as usize] == self.start[p as usize + 1]
    }
}

/// Compare a scoped output with the window of the full run: positions in order and inside the
/// window, and per position the same multiset of showdowns (order inside a position is not
/// promised by the statement).
pub fn compare(full: &FullRun, from: u16, to: u16, got: &Seq, what: &str) -> Result<(), Fail> {
    let want = full.window(from, to);
    if want == got.as_slice() {
        return Ok(());
    }
    let (pf, pt) = (index_pos(from), index_pos(to));
    for w in got.windows(2) {
        if w[0].0 > w[1].0 {
            return Err(Fail::new("scope-order", format!("{}: scope {:?}..{:?} steps back from position {:?} to {:?}", what, pf, pt, index_pos(w[0].0), index_pos(w[1].0))));
        }
    }
    for g in got.iter() {
        if g.0 < from || g.0 >= to {
            return Err(Fail::new("scope-outside", format!("{}: scope {:?}..{:?} yields a showdown at position {:?}, outside the window", what, pf, pt, index_pos(g.0))));
        }
    }
    // group-wise multiset comparison
    let mut a: Vec<(u16, u64)> = want.to_vec();
    let mut b: Vec<(u16, u64)> = got.clone();
    a.sort_unstable();
    b.sort_unstable();
    if a == b {
        return Ok(());
    }
    let mut i = 0;
    while i < a.len() && i < b.len() && a[i] == b[i] {
        i += 1;
    }
    let (pa, pb) = (a.get(i).map(|x| x.0), b.get(i).map(|x| x.0));
    let (sig, p) = match (pa, pb) {
        (Some(x), Some(y)) if x < y => ("scope-missing", x),
        (Some(x), Some(y)) if y < x => ("scope-extra", y),
        (Some(x), Some(_)) => ("scope-different", x),
        (Some(x), None) => ("scope-missing", x),
        (None, Some(y)) => ("scope-extra", y),
        (None, None) => unreachable!(),
    };
    Err(Fail::new(
        sig,
        format!(
            "{}: scope {:?}..{:?} yields {} showdowns, the unscoped run has {} in that window; first difference at position {:?} ({}: unscoped run has {} showdowns there, scoped run {})",
            what,
            pf,
            pt,
            got.len(),
            want.len(),
            index_pos(p),
            sig,
            a.iter().filter(|x| x.0 == p).count(),
            b.iter().filter(|x| x.0 == p).count()
        ),
    ))
}

pub fn scoped(cfg: &Config, from: u16, to: u16) -> Config {
    let (a, b) = index_pos(from);
    let (c, d) = index_pos(to);
    let mut s = cfg.clone();
    s.scope = Some((a, b, c, d));
    s
}

const W_CLASSES: &[&str] = &["row_rollover_inside", "empty_position_at_edge", "empty_window", "ends_at_terminal", "starts_mid_row", "multi_combo_ranges"];

fn window_classes(full: &FullRun, from: u16, to: u16) -> u64 {
    let mut c = 0u64;
    let (pf, pt) = (index_pos(from), index_pos(to));
    if pt.0 > pf.0 && to > from {
        c |= 1;
    }
    if from < to && (full.empty_at(from) || full.empty_at(to - 1) || (to < 1176 && full.empty_at(to))) {
        c |= 2;
    }
    if from == to {
        c |= 4;
    }
    if to == 1176 {
        c |= 8;
    }
    if pf.1 != pf.0 + 1 {
        c |= 16;
    }
    if full.cfg.ranges.iter().any(|r| r.combos.len() > 1) {
        c |= 32;
    }
    c
}

fn check_window(full: &FullRun, from: u16, to: u16, extra_next: usize) -> CheckResult {
    let want_len = full.window(from, to).len();
    let got = run_seq(&scoped(&full.cfg, from, to), want_len, extra_next)?;
    compare(full, from, to, &got, "single scope")?;
    let cls = window_classes(full, from, to);
    Ok(Outcome::new(cls & 0b1111 != 0, (from as u64) << 16 | to as u64, cls))
}

// ---------------------------------------------------------------------------------------------
// generated cases

#[derive(Clone, Debug, Serialize, Deserialize)]
pub struct Case {
    pub cfg: Config,
    /// scope() calls made before into_iter (position indexes), last one wins; empty = unscoped
    pub scopes: Vec<(u16, u16)>,
    /// next() calls made after the first None (each must return None)
    pub extra_next: u32,
}

#[derive(Clone, Debug, Serialize, Deserialize)]
pub struct ChainCase {
    pub cfg: Config,
    /// interior cut points (position indexes), sorted; duplicates = empty scopes
    pub cuts: Vec<u16>,
}

pub fn check_case(c: &Case) -> CheckResult {
    vensure!(c.cfg.valid() && c.cfg.scope.is_none() && c.scopes.iter().all(|(a, b)| a <= b && *b <= 1176), "bad-case", "invalid case");
    let full = FullRun::new(&c.cfg)?;
    let tr = Translator::new(&c.cfg);
    let mut ev = c.cfg.evaluator();
    let (mut from, mut to) = (0u16, 1176u16);
    for (a, b) in &c.scopes {
        let (pa, pb) = (index_pos(*a), index_pos(*b));
        ev.scope(pa.0, pa.1, pb.0, pb.1);
        from = *a;
        to = *b;
    }
    let want_len = full.window(from, to).len();
    let mut got: Seq = vec![];
    let mut it = ev.into_iter();
    while let Some(s) = it.next() {
        let (t, r, fp) = tr.light(&s);
        vensure!(t < r && r != 255, "turn-river-order", "turn/river positions ({}, {})", t, r);
        vensure!(got.len() < want_len, "over-production", "scope calls {:?}: more than the {} showdowns of the window {:?}..{:?}", c.scopes, want_len, index_pos(from), index_pos(to));
        got.push((pos_index(t, r), fp));
    }
    for k in 0..c.extra_next {
        vensure!(it.next().is_none(), "not-exhausted", "scope calls {:?}: call {} after exhaustion returned a showdown", c.scopes, k + 1);
    }
    compare(&full, from, to, &got, &format!("after scope calls {:?}", c.scopes.iter().map(|(a, b)| (index_pos(*a), index_pos(*b))).collect::<Vec<_>>()))?;
    // the same scoped run consumed through nth()/skip()/step_by()/count()/last()/collect()
    {
        let mk = || {
            let mut ev = c.cfg.evaluator();
            for (a, b) in &c.scopes {
                let (pa, pb) = (index_pos(*a), index_pos(*b));
                ev.scope(pa.0, pa.1, pb.0, pb.1);
            }
            ev
        };
        consume_variants(&mk, &tr, want_len, fp_of(&format!("{:?}", c)), &format!("window {:?}..{:?}", index_pos(from), index_pos(to)))?;
    }
    let mut cls = window_classes(&full, from, to);
    if c.scopes.len() >= 2 {
        cls |= 64;
    }
    if c.scopes.is_empty() {
        cls |= 128;
    }
    if c.extra_next >= 100 {
        cls |= 256;
    }
    Ok(Outcome::new(cls & 0b1111 != 0, fp_of(&format!("{:?}", c)), cls))
}
const CASE_CLASSES: &[&str] = &["row_rollover_inside", "empty_position_at_edge", "empty_window", "ends_at_terminal", "starts_mid_row", "multi_combo_ranges", "repeated_scope_calls", "no_scope_call", "hundred_plus_calls_after_exhaustion"];

/// A scoped run compared directly with the reference ENUMERATION MODEL restricted to the window
/// (not with the unscoped run): multiset of deals, probabilities, exhaustion.  Cheap for short
/// windows, which makes it the oracle of the coverage-guided target fz_eval.
pub fn check_window_model(c: &Case) -> CheckResult {
    vensure!(c.cfg.valid() && c.cfg.scope.is_none() && c.cfg.ranges.iter().all(|r| !r.combos.is_empty()) && c.scopes.iter().all(|(a, b)| a <= b && *b <= 1176), "bad-case", "invalid case");
    let (mut from, mut to) = (0u16, 1176u16);
    let tr = Translator::new(&c.cfg);
    let widths = key_widths(&c.cfg);
    let mut ev = c.cfg.evaluator();
    for (a, b) in &c.scopes {
        let (pa, pb) = (index_pos(*a), index_pos(*b));
        ev.scope(pa.0, pa.1, pb.0, pb.1);
        from = *a;
        to = *b;
    }
    let mut deals = Vec::new();
    let mut blocked = 0u64;
    model_deals(&c.cfg, index_pos(from), index_pos(to), &mut deals, &mut blocked);
    deals.sort_by_key(|d| d.key);
    let mut got: Vec<DealKey> = vec![];
    let mut last = 0u16;
    let mut it = ev.into_iter();
    while let Some(s) = it.next() {
        let rec = tr.record(&s)?;
        vensure!(rec.t < rec.r, "turn-river-order", "turn/river positions ({}, {})", rec.t, rec.r);
        let p = pos_index(rec.t, rec.r);
        vensure!(p >= from && p < to, "scope-outside", "scope {:?}..{:?} yields a showdown at position {:?}", index_pos(from), index_pos(to), index_pos(p));
        vensure!(p >= last, "scope-order", "positions step back from {:?} to {:?}", index_pos(last), index_pos(p));
        last = p;
        let k = rec.key(&widths);
        match deals.binary_search_by_key(&k, |d| d.key) {
            Ok(i) => {
                crate::props::c02::check_probability(&c.cfg, &rec.combos, f32::from_bits(rec.prob_bits), deals[i].prob).map_err(|e| Fail::new("probability", format!("deal {}: {}", describe_key(&c.cfg, k), e)))?;
            }
            Err(_) => return Err(Fail::new("extra-deal", format!("scope {:?}..{:?} yields a deal the model does not have there: {}", index_pos(from), index_pos(to), describe_key(&c.cfg, k)))),
        }
        got.push(k);
        vensure!(got.len() <= deals.len(), "over-production", "scope {:?}..{:?}: more than the {} legal deals of the window", index_pos(from), index_pos(to), deals.len());
    }
    for k in 0..c.extra_next {
        vensure!(it.next().is_none(), "not-exhausted", "call {} after exhaustion returned a showdown", k + 1);
    }
    got.sort_unstable();
    for w in got.windows(2) {
        vensure!(w[0] != w[1], "duplicate-deal", "deal yielded twice: {}", describe_key(&c.cfg, w[0]));
    }
    if got.len() != deals.len() {
        let mut gi = 0;
        for d in &deals {
            if gi < got.len() && got[gi] == d.key {
                gi += 1;
            } else {
                return Err(Fail::new("missing-deal", format!("scope {:?}..{:?}: legal deal never yielded: {} ({} of {} yielded)", index_pos(from), index_pos(to), describe_key(&c.cfg, d.key), got.len(), deals.len())));
            }
        }
    }
    let mut cls = 0u64;
    if blocked > 0 {
        cls |= 1;
    }
    if c.scopes.len() >= 2 {
        cls |= 2;
    }
    if from == to {
        cls |= 4;
    }
    Ok(Outcome::new(!deals.is_empty(), fp_of(&format!("{:?}", c)), cls))
}
pub const MODEL_CLASSES: &[&str] = &["player_player_collision", "repeated_scope_calls", "empty_window"];

/// short windows (at most 60 positions) over small configurations, compared with the model
pub fn model_window_strategy() -> impl Strategy<Value = Case> {
    (cfg_strategy(), proptest::collection::vec((pos_strategy(), 0u16..60), 1..=3), 0u32..4).prop_filter_map("needs players", |(cfg, ws, extra_next)| {
        if cfg.ranges.is_empty() {
            return None;
        }
        Some(Case { cfg, scopes: ws.into_iter().map(|(a, d)| (a, (a + d).min(1176))).collect(), extra_next })
    })
}

pub fn check_chain(c: &ChainCase) -> CheckResult {
    vensure!(c.cfg.valid() && c.cfg.scope.is_none() && c.cuts.windows(2).all(|w| w[0] <= w[1]) && c.cuts.iter().all(|x| *x <= 1176), "bad-case", "invalid chain");
    let full = FullRun::new(&c.cfg)?;
    let mut pts = vec![0u16];
    pts.extend_from_slice(&c.cuts);
    pts.push(1176);
    let mut all: Seq = vec![];
    if fp_of(&format!("{:?}", c)) % 2 == 0 {
        // the way the multi-thread example does it: every scoped iterator is built first; here an
        // evaluator on another flop is then started on the same thread and stays alive while the
        // links are drained one after the other
        let tr = Translator::new(&c.cfg);
        let mut its: Vec<_> = pts.windows(2).map(|w| scoped(&c.cfg, w[0], w[1]).evaluator().into_iter()).collect();
        let other_flop = {
            let mut v: Vec<u8> = vec![];
            let mut x = (c.cfg.flop[0] + 17) % 52;
            while v.len() < 3 {
                if !c.cfg.flop.contains(&x) && !v.contains(&x) {
                    v.push(x);
                }
                x = (x + 5) % 52;
            }
            [v[0], v[1], v[2]]
        };
        let mut foreign = Config { flop: other_flop, ranges: vec![], scope: None }.evaluator().into_iter();
        for _ in 0..3 {
            std::hint::black_box(foreign.next().is_some());
        }
        for (k, w) in pts.windows(2).enumerate() {
            let want_len = full.window(w[0], w[1]).len();
            let got = drain_seq(&mut its[k], &tr, want_len, 1, &format!("chain link {:?}..{:?} (all links built first, an evaluator on another flop alive beside them)", index_pos(w[0]), index_pos(w[1])))?;
            compare(&full, w[0], w[1], &got, &format!("chain link {:?}..{:?} (all links built first, an evaluator on another flop alive beside them)", index_pos(w[0]), index_pos(w[1])))?;
            all.extend(got);
            std::hint::black_box(foreign.next().is_some());
        }
    } else {
        for w in pts.windows(2) {
            let want_len = full.window(w[0], w[1]).len();
            let got = run_seq(&scoped(&c.cfg, w[0], w[1]), want_len, 1)?;
            compare(&full, w[0], w[1], &got, &format!("chain link {:?}..{:?}", index_pos(w[0]), index_pos(w[1])))?;
            all.extend(got);
        }
    }
    compare(&full, 0, 1176, &all, "concatenated chain")?;
    vensure!(all.len() == full.seq.len(), "chain-count", "chain yields {} showdowns, the full run {}", all.len(), full.seq.len());
    let mut cls = 0u64;
    if c.cuts.windows(2).any(|w| w[0] == w[1]) {
        cls |= 1;
    }
    if c.cuts.len() >= 8 {
        cls |= 2;
    }
    if c.cuts.iter().any(|x| full.empty_at(*x)) {
        cls |= 4;
    }
    if full.cfg.ranges.iter().any(|r| r.combos.len() > 1) {
        cls |= 8;
    }
    Ok(Outcome::new(!c.cuts.is_empty(), fp_of(&format!("{:?}", c)), cls))
}
const CHAIN_CLASSES: &[&str] = &["empty_scope_in_chain", "eight_or_more_cuts", "cut_at_empty_position", "multi_combo_ranges"];

/// small configurations: products <= 16 per position, blocked rows, empty tails
pub fn cfg_strategy() -> impl Strategy<Value = Config> {
    prop_oneof![
        3 => pool_config(1..=3, 5..=9, 3),
        2 => free_config(1..=2, 1, 4),
        // a single-combo player holding the last two deck cards: the tail of the line is empty
        2 => (flop_strategy(), range_from(all_combos(), 1, 3), 0usize..3).prop_map(|(flop, other, k)| {
            let deck = deck49(&flop);
            let tail = norm_pair(deck[48 - k], deck[47 - k]);
            Config { flop, ranges: vec![RangeSpec { combos: vec![(tail.0, tail.1, 1.0)] }, other], scope: None }
        }),
        // a single-combo player holding the first two deck cards: the first turn rows are empty
        2 => (flop_strategy(), range_from(all_combos(), 1, 3)).prop_map(|(flop, other)| {
            let deck = deck49(&flop);
            let head = norm_pair(deck[0], deck[1]);
            Config { flop, ranges: vec![other, RangeSpec { combos: vec![(head.0, head.1, 0.5)] }], scope: None }
        }),
        1 => flop_strategy().prop_map(|flop| Config { flop, ranges: vec![], scope: None }),
    ]
    .prop_map(|mut c| {
        fit_budget(&mut c, 1176 * 16);
        c
    })
}

/// position index biased to edges: row starts, row ends, 0, 1175, terminal
pub fn pos_strategy() -> impl Strategy<Value = u16> {
    prop_oneof![
        4 => 0u16..=1176,
        2 => (0u8..48).prop_map(|t| pos_index(t, t + 1)),
        2 => (0u8..48).prop_map(|t| pos_index(t, 48)),
        1 => Just(0u16),
        1 => Just(1175u16),
        1 => Just(1176u16),
    ]
}
pub fn window_strategy() -> impl Strategy<Value = (u16, u16)> {
    prop_oneof![
        4 => (pos_strategy(), pos_strategy()).prop_map(|(a, b)| (a.min(b), a.max(b))),
        1 => pos_strategy().prop_map(|a| (a, a)),
        1 => pos_strategy().prop_map(|a| (a, (a + 1).min(1176))),
        1 => pos_strategy().prop_map(|a| (a, 1176)),
        1 => (pos_strategy(), 0u16..60).prop_map(|(a, d)| (a, (a + d).min(1176))),
    ]
}

pub fn case_strategy() -> impl Strategy<Value = Case> {
    (cfg_strategy(), proptest::collection::vec(window_strategy(), 0..=3), prop_oneof![6 => 0u32..4, 2 => 4u32..400, 1 => 400u32..20_000]).prop_map(|(cfg, scopes, extra_next)| Case { cfg, scopes, extra_next })
}
pub fn chain_strategy() -> impl Strategy<Value = ChainCase> {
    (cfg_strategy(), proptest::collection::vec(pos_strategy(), 0..64)).prop_map(|(cfg, mut cuts)| {
        cuts.sort_unstable();
        ChainCase { cfg, cuts }
    })
}

/// fixed configurations for the exhaustive (from,to) sweeps
pub fn sweep_configs() -> Vec<Config> {
    let one = |a: u8, b: u8, w: f32| RangeSpec { combos: vec![(a.min(b), a.max(b), w)] };
    vec![
        // two single-combo players (shape of the repository's own scope tests)
        Config { flop: [49, 50, 51], ranges: vec![one(40, 45, 1.0), one(42, 47, 1.0)], scope: None },
        // multi-combo ranges with player-player blocking, weights
        Config { flop: [13, 22, 47], ranges: vec![RangeSpec { combos: vec![(0, 4, 1.0), (0, 5, 0.5), (8, 9, 0.25)] }, RangeSpec { combos: vec![(0, 1, 1.0), (4, 8, 0.5)] }], scope: None },
        // player holding the first two deck cards (empty head rows) and one holding the last two (empty tail)
        Config { flop: [20, 21, 22], ranges: vec![one(0, 1, 1.0), one(50, 51, 0.5)], scope: None },
        // one player, three combos, one overlapping the flop
        Config { flop: [0, 30, 51], ranges: vec![RangeSpec { combos: vec![(0, 1, 1.0), (2, 3, 1.0), (49, 50, 0.75)] }], scope: None },
        // three players
        Config { flop: [5, 6, 7], ranges: vec![one(0, 8, 1.0), RangeSpec { combos: vec![(1, 9, 1.0), (0, 9, 1.0)] }, one(2, 10, 1.0)], scope: None },
        // no players at all
        Config { flop: [10, 20, 30], ranges: vec![], scope: None },
    ]
}

pub fn run(ctx: &mut Ctx) {
    // harness self-check: position indexing
    let ap = all_positions();
    for (i, p) in ap.iter().enumerate() {
        assert_eq!(pos_index(p.0, p.1) as usize, i);
        assert_eq!(index_pos(i as u16), *p);
    }
    ctx.rule = "positions = the 1176 (turn<river) deck-index pairs + terminal. (1) exhaustive: for fixed configurations, every ordered pair from <= to of the 1177 positions (693,253 windows each; quick 2 configurations, thorough 6) - the scoped run must equal the unscoped run's window position by position (multiset inside a position), be exhausted afterwards (3 more next() calls). (2) proptest histories: small generated configurations (pool/free ranges, players holding the first/last deck cards so head rows / the tail are empty, no players), 0-3 scope() calls before iteration (last wins), windows biased to row starts/ends/terminal/empty/one-position, next() after exhaustion (0-3 calls mostly, up to 20,000). (3) proptest chains: 0-63 sorted cut points (duplicates = empty scopes), every link compared and the concatenation compared with the full run; in half of the chains every link's iterator is built before the first is drained and an evaluator on another flop is alive on the thread meanwhile (the multi-thread example builds its scopes up front). (4) short windows compared directly with the enumeration model restricted to the window (independent of the unscoped run); (5) windows over 3 ranges of 300-1326 combos (or 4 of up to 160) (more than 2^32 odometer slots, cannot be drained): the first showdowns must lie inside the window, in position order, start at the first position with a legal deal and be as many as the window provably holds. Non-trivial = window contains a row rollover, has an empty position at an edge, is empty or ends at the terminal (chains: >= 1 cut); distinct by (configuration, window/cuts).".into();
    ctx.assumptions = vec![
        "only valid positions (t<r<=48 or (48,49)) with from <= to are generated; aliases like (47,49) are outside the statement".into(),
        "showdowns are compared through a 64-bit fingerprint of board, hole cards, power indexes, winner flags, winner_len and probability bits".into(),
    ];
    let cfgs = sweep_configs();
    let nsweep = ctx.tier.pick(2usize, cfgs.len());
    const NAMES: [&str; 6] = ["all_windows_cfg0", "all_windows_cfg1", "all_windows_cfg2", "all_windows_cfg3", "all_windows_cfg4", "all_windows_cfg5"];
    for (k, cfg) in cfgs.iter().take(nsweep).enumerate() {
        let full = match catch(|| FullRun::new(cfg)) {
            Ok(Ok(f)) => Arc::new(f),
            Ok(Err(f)) => {
                ctx.report_violation(NAMES[k], &serde_json::to_value(Case { cfg: cfg.clone(), scopes: vec![], extra_next: 0 }).unwrap(), &f);
                continue;
            }
            Err(p) => {
                let f = Fail::new(format!("panic@{}", p.rsplit(" at ").next().unwrap_or("?")), format!("the unscoped run of sweep configuration {} panicked: {}", k, p));
                ctx.report_violation(NAMES[k], &serde_json::to_value(Case { cfg: cfg.clone(), scopes: vec![], extra_next: 0 }).unwrap(), &f);
                continue;
            }
        };
        // pair index -> (from, to), from <= to over 0..=1176
        let n: u64 = 1177 * 1178 / 2;
        let cfgc = cfg.clone();
        ctx.run_enum_brief(
            StreamCfg::new(NAMES[k], W_CLASSES, n),
            n,
            true,
            move |i| {
                // row-major over from: from has (1177 - from) partners
                let mut from = 0u64;
                let mut rest = i;
                // closed form would do; the loop is at most 1177 steps
                while rest >= 1177 - from {
                    rest -= 1177 - from;
                    from += 1;
                }
                Case { cfg: cfgc.clone(), scopes: vec![(from as u16, (from + rest) as u16)], extra_next: 3 }
            },
            {
                let full = full.clone();
                move |c: &Case| check_window(&full, c.scopes[0].0, c.scopes[0].1, c.extra_next as usize)
            },
            |c| json!({"cfg": c.cfg.brief(), "from": index_pos(c.scopes[0].0), "to": index_pos(c.scopes[0].1)}),
        );
    }
    let cases = ctx.tier.pick(40_000, 600_000);
    ctx.run_random_brief(StreamCfg::new("scope_histories", CASE_CLASSES, cases).shrink(300), case_strategy, check_case, |c| json!({"cfg": c.cfg.brief(), "scope_calls": c.scopes.iter().map(|(a, b)| (index_pos(*a), index_pos(*b))).collect::<Vec<_>>(), "extra_next": c.extra_next}));
    for (c, d) in [("row_rollover_inside", 4), ("empty_position_at_edge", 20), ("empty_window", 30), ("ends_at_terminal", 20), ("repeated_scope_calls", 4), ("multi_combo_ranges", 4)] {
        ctx.require_class("scope_histories", c, cases / d);
    }
    let cases = ctx.tier.pick(4_000, 60_000);
    ctx.run_random_brief(StreamCfg::new("scope_chains", CHAIN_CLASSES, cases).shrink(300), chain_strategy, check_chain, |c| json!({"cfg": c.cfg.brief(), "cuts": c.cuts.iter().map(|x| index_pos(*x)).collect::<Vec<_>>()}));
    ctx.require_class("scope_chains", "empty_scope_in_chain", cases / 10);
    ctx.require_class("scope_chains", "cut_at_empty_position", cases / 20);
    let cases = ctx.tier.pick(20_000, 300_000);
    ctx.run_random_brief(StreamCfg::new("windows_against_model", MODEL_CLASSES, cases).shrink(300), model_window_strategy, check_window_model, |c| json!({"cfg": c.cfg.brief(), "scope_calls": c.scopes.iter().map(|(a, b)| (index_pos(*a), index_pos(*b))).collect::<Vec<_>>()}));
    // windows over configurations far too large to drain (slot counts beyond 2^32): prefix only
    let cases = ctx.tier.pick(200, 4_000);
    ctx.run_random_brief(
        StreamCfg::new("huge_scoped_prefix", crate::props::c02::PREFIX_CLASSES, cases).shrink(40),
        || crate::props::c02::prefix_strategy(true),
        crate::props::c02::check_prefix,
        |c| json!({"cfg": c.cfg.brief(), "take": c.take}),
    );
    ctx.require_class("huge_scoped_prefix", "window_slots_over_2_32", cases / 4);
    ctx.require_class("huge_scoped_prefix", "scoped", cases / 2);
    ctx.extra.insert("exhaustive_over".into(), json!(format!("all 693,253 (from <= to) windows for {} fixed configuration(s)", nsweep)));
    if ctx.tier == Tier::Thorough && !ctx.failed() {
        crate::fuzzrun::campaign(ctx, "fz_eval", 8_000, 16, 512);
    }
}

pub fn replay(stream: &str, path: &str, case: &Value) -> i32 {
    match stream {
        "scope_chains" => replay_case::<ChainCase>("C04", path, case, check_chain),
        "windows_against_model" => replay_case::<Case>("C04", path, case, check_window_model),
        "huge_scoped_prefix" => replay_case::<crate::props::c02::PrefixCase>("C04", path, case, crate::props::c02::check_prefix),
        _ => replay_case::<Case>("C04", path, case, check_case),
    }
}
