//! C12 — a range splits exactly into complete rank pairs and leftover combos.

use crate::cards::*;
use crate::notation::*;
use crate::props::c06::{range_strategy, weight_any, RangeCase};
use crate::runner::*;
use crate::vensure;
use espada::hand_range::RankPair;
use proptest::prelude::*;
use serde::{Deserialize, Serialize};
use serde_json::{json, Value};
use std::collections::BTreeMap;

pub fn cell_of_rank_pair(rp: &RankPair) -> Cell {
    match rp {
        RankPair::Pocket(r) => Cell::pocket(rank_ix(r)),
        RankPair::Suited(h, k) => Cell { kind: Kind::Suited, hi: rank_ix(h), lo: rank_ix(k) },
        RankPair::Ofsuit(h, k) => Cell { kind: Kind::Offsuit, hi: rank_ix(h), lo: rank_ix(k) },
    }
}

pub fn check_range(c: &RangeCase) -> CheckResult {
    vensure!(c.combos.iter().all(|c| c.0 < 52 && c.1 < 52 && c.2.is_finite() && c.2 >= 0.0), "bad-case", "range outside the domain");
    let m = c.map();
    vensure!(m.len() == c.combos.len(), "bad-case", "duplicate combos");
    let r = to_espada(&m);
    check_views(&r, &m, fp_of(&format!("{:?}", c.combos.iter().map(|c| (c.0, c.1, c.2.to_bits())).collect::<Vec<_>>())))
}

/// a range obtained by PARSING text (any well-formed token in either spelling, token lists): its two
/// views must split the combos it holds in the same way
pub fn check_parsed(text: &String) -> CheckResult {
    let Ok(r) = text.parse::<espada::hand_range::HandRange>() else {
        return Ok(Outcome::default());
    };
    let m = espada_map(&r);
    vensure!(m.len() == r.card_pairs().len(), "range-holds-combo-twice", "range {:?} holds {} entries for {} distinct combos", text, r.card_pairs().len(), m.len());
    check_views(&r, &m, hash_str(text)).map_err(|mut f| {
        f.what = format!("{} [range parsed from {:?}]", f.what, text.chars().take(120).collect::<String>());
        f
    })
}

pub fn check_views(r: &espada::hand_range::HandRange, m: &RangeMap, fp: u64) -> CheckResult {
    let m = m.clone();
    let (complete, left) = split(&m);
    // view 1: rank pairs
    let got_rp = r.rank_pairs();
    let mut got_cells: BTreeMap<Cell, f32> = BTreeMap::new();
    for (rp, w) in got_rp.iter() {
        let cell = cell_of_rank_pair(rp);
        vensure!(cell.kind == Kind::Pocket || cell.hi < cell.lo, "rank-pair-orientation", "rank pair {:?} is reported with the kicker above the high card", rp);
        vensure!(got_cells.insert(cell, *w).is_none(), "rank-pair-twice", "rank pair {} reported twice", cell.name());
    }
    for (cell, w) in &complete {
        match got_cells.get(cell) {
            None => return Err(Fail::new(format!("rank-pair-missing:{:?}", cell.kind), format!("all {} combos of {} are present with weight {} but the rank pair is not reported", cell.combos().len(), cell.name(), w))),
            Some(g) if g != w => return Err(Fail::new("rank-pair-weight", format!("rank pair {} reported with weight {}, its combos carry {}", cell.name(), g, w))),
            _ => {}
        }
    }
    for (cell, g) in &got_cells {
        if !complete.contains_key(cell) {
            let cs = cell.combos();
            let present = cs.iter().filter(|p| m.contains_key(p)).count();
            return Err(Fail::new(
                format!("rank-pair-spurious:{:?}", cell.kind),
                format!("rank pair {} is reported (weight {}) but only {} of its {} combos are present with one common weight (weights: {:?})", cell.name(), g, present, cs.len(), cs.iter().map(|p| m.get(p)).collect::<Vec<_>>()),
            ));
        }
    }
    // view 2: leftovers
    let got_left: RangeMap = r.orphan_card_pairs().iter().map(|(k, v)| (pair_ids(k), *v)).collect();
    if let Some(d) = diff_maps_eq(&left, &got_left) {
        return Err(Fail::new("leftovers", format!("leftover view differs from the combos not covered by a complete rank pair: {} ({} leftovers expected, {} reported)", d, left.len(), got_left.len())));
    }
    // together: every combo exactly once
    let mut covered: BTreeMap<(u8, u8), u32> = BTreeMap::new();
    for cell in got_cells.keys() {
        for p in cell.combos() {
            *covered.entry(p).or_insert(0) += 1;
        }
    }
    for p in got_left.keys() {
        *covered.entry(*p).or_insert(0) += 1;
    }
    for p in m.keys() {
        vensure!(covered.get(p) == Some(&1), "cover-once", "combo {} is covered {} times by the two views", pname(*p), covered.get(p).copied().unwrap_or(0));
    }
    vensure!(covered.len() == m.len(), "cover-extra", "the two views cover {} combos, the range has {}", covered.len(), m.len());
    // classes: almost complete cells
    let mut cls = 0u64;
    let mut almost = false;
    for cell in all_cells() {
        let cs = cell.combos();
        let present: Vec<f32> = cs.iter().filter_map(|p| m.get(p).copied()).collect();
        if present.len() == cs.len() && !complete.contains_key(&cell) {
            cls |= 1; // all present, a weight differs
            almost = true;
        }
        if present.len() + 1 == cs.len() && present.windows(2).all(|w| w[0] == w[1]) {
            cls |= 2; // exactly one missing
            almost = true;
        }
    }
    if !complete.is_empty() {
        cls |= 4;
    }
    if !left.is_empty() {
        cls |= 8;
    }
    if m.values().any(|w| w.to_bits() == (-0.0f32).to_bits()) && m.values().any(|w| w.to_bits() == 0) {
        cls |= 16;
    }
    Ok(Outcome::new(almost || !complete.is_empty(), fp, cls))
}
pub const CLASSES: &[&str] = &["all_present_one_weight_differs", "exactly_one_combo_missing", "has_complete_rank_pair", "has_leftovers", "signed_zero_weights", "history_around_256_calls", "history_around_65536_calls"];

/// like diff_maps, but weights are compared with f32 equality (+0.0 == -0.0: "the same weight")
fn diff_maps_eq(want: &RangeMap, got: &RangeMap) -> Option<String> {
    for (k, w) in want {
        match got.get(k) {
            None => return Some(format!("combo {} (weight {}) is missing", pname(*k), w)),
            Some(g) if g != w => return Some(format!("combo {} has weight {}, expected {}", pname(*k), g, w)),
            _ => {}
        }
    }
    for (k, g) in got {
        if !want.contains_key(k) {
            return Some(format!("combo {} (weight {:?}) should not be there (it is covered by a reported rank pair)", pname(*k), g));
        }
    }
    None
}

/// target-cell pattern: base-3 digits of `code` over the cell's combos (0 absent, 1 weight a,
/// 2 weight b), embedded in a background
#[derive(Clone, Debug, Serialize, Deserialize)]
pub struct PatternCase {
    pub cell: Cell,
    pub code: u32,
    pub wa: f32,
    pub wb: f32,
    pub background: Vec<(u8, u8, f32)>,
}
pub fn pattern_range(c: &PatternCase) -> RangeCase {
    let mut m: RangeMap = c.background.iter().map(|b| (norm_pair(b.0, b.1), b.2)).collect();
    let mut x = c.code;
    for p in c.cell.combos() {
        match x % 3 {
            0 => {
                m.remove(&p);
            }
            1 => {
                m.insert(p, c.wa);
            }
            _ => {
                m.insert(p, c.wb);
            }
        }
        x /= 3;
    }
    RangeCase::from_map(&m)
}
pub fn check_pattern(c: &PatternCase) -> CheckResult {
    let mut r = pattern_range(c);
    // every seventh pocket pattern also holds the degenerate entries XsXs / XhXh of its rank
    if c.cell.kind == Kind::Pocket && c.code % 7 == 3 {
        let mut m = r.map();
        m.insert((c.cell.hi * 4, c.cell.hi * 4), c.wa);
        m.insert((c.cell.hi * 4 + 1, c.cell.hi * 4 + 1), c.wb);
        r = RangeCase::from_map(&m);
    }
    check_range(&r)
}

// ---------------------------------------------------------------------------------------------
// long call histories on one thread

/// A complete rank pair is queried once; then follow `fillers` queries of ranges that do not touch
/// it; then `probes` queries of the same rank pair with one combo missing.  Every probe must see an
/// incomplete pair - whatever was looked at 255, 256, 65,535 or 65,536 queries earlier on this
/// thread (generation counters of per-thread scratch tables wrap there).
#[derive(Clone, Debug, Serialize, Deserialize)]
pub struct HistoryCase {
    pub cell: Cell,
    pub drop: u8,
    pub w: f32,
    pub fillers: u32,
    pub probes: u32,
    pub filler_kind: u8,
}

pub fn check_history(c: &HistoryCase) -> CheckResult {
    vensure!(c.w.is_finite() && c.w >= 0.0 && c.fillers <= 200_000 && c.probes <= 200, "bad-case", "history outside the domain");
    let combos = c.cell.combos();
    let x: RangeMap = combos.iter().map(|p| (*p, c.w)).collect();
    let rx = to_espada(&x);
    check_views(&rx, &x, 1)?;
    let cells = all_cells();
    let me = cells.iter().position(|k| *k == c.cell).unwrap_or(0);
    let other = cells[(me + 1 + c.filler_kind as usize % 167) % 169];
    let fillers: Vec<espada::hand_range::HandRange> = vec![
        to_espada(&RangeMap::new()),
        to_espada(&other.combos().iter().map(|p| (*p, 0.5f32)).collect()),
        to_espada(&other.combos().iter().take(1).map(|p| (*p, c.w)).collect()),
    ];
    let mut y = x.clone();
    let dropped = combos[c.drop as usize % combos.len()];
    y.remove(&dropped);
    let ry = to_espada(&y);
    for i in 0..c.fillers {
        let f = &fillers[(i as usize + c.filler_kind as usize) % fillers.len()];
        std::hint::black_box(f.rank_pairs().len());
    }
    for k in 0..c.probes {
        check_views(&ry, &y, 2).map_err(|mut f| {
            f.what = format!("{} [history on one thread: {} queried complete, {} queries of ranges that do not touch it, then probe {} of the same rank pair without {}]", f.what, c.cell.name(), c.fillers, k + 1, pname(dropped));
            f.sig = format!("history:{}", f.sig);
            f
        })?;
    }
    let cls = if c.fillers >= 60_000 { 64 } else { 32 };
    Ok(Outcome::new(true, fp_of(&format!("{:?}", c)), cls))
}

pub fn history_strategy() -> impl Strategy<Value = HistoryCase> {
    (0usize..169, any::<u8>(), prop_oneof![Just(1.0f32), Just(0.5f32), weight_any()], prop_oneof![Just(230u32), Just(65_500u32)], 0u32..16, any::<u8>()).prop_map(|(ci, drop, w, base, off, filler_kind)| HistoryCase { cell: all_cells()[ci], drop, w, fillers: base + off, probes: 48, filler_kind })
}

/// Ranges with several hundred distinct weights: every rank pair has a weight of its own; most
/// pairs are present completely except that one combo carries a second weight of its own (so the
/// pair is not complete), some are uniform, some absent.
pub fn many_weights_range(seed: u64) -> RangeCase {
    let mut m = RangeMap::new();
    let mut x = mix64(seed ^ 0x77ee);
    for (ci, cell) in all_cells().iter().enumerate() {
        x = mix64(x);
        let combos = cell.combos();
        let w = (2 * ci as u32 + 1) as f32 / 1024.0;
        let w2 = (2 * ci as u32 + 2) as f32 / 1024.0 + 0.5 / 1024.0;
        match x % 16 {
            0 => {}
            1 | 2 => {
                for p in &combos {
                    m.insert(*p, w);
                }
            }
            _ => {
                let odd = (x >> 8) as usize % combos.len();
                for (i, p) in combos.iter().enumerate() {
                    m.insert(*p, if i == odd { w2 } else { w });
                }
            }
        }
    }
    RangeCase::from_map(&m)
}

fn background(seed: u64) -> Vec<(u8, u8, f32)> {
    // a few complete neighbours and stray combos, deterministic
    let mut m = RangeMap::new();
    let cells = all_cells();
    let mut x = mix64(seed);
    for _ in 0..(x % 4) {
        x = mix64(x);
        let c = cells[(x % 169) as usize];
        for p in c.combos() {
            m.insert(p, if x >> 20 & 1 == 1 { 1.0 } else { 0.5 });
        }
    }
    for _ in 0..(x >> 8) % 5 {
        x = mix64(x);
        let a = (x % 52) as u8;
        let b = ((x >> 8) % 52) as u8;
        // a == b: a degenerate entry (one card twice) is a legal key of a HandRange built through
        // FromIterator; it belongs to no rank pair and must simply stay among the leftovers
        m.insert(norm_pair(a, b), if x >> 40 & 1 == 1 { 0.75 } else { 1.0 });
    }
    m.iter().map(|(k, v)| (k.0, k.1, *v)).collect()
}

pub fn run(ctx: &mut Ctx) {
    ctx.rule = "(1) exhaustive inside one rank pair: every absent/weight-a/weight-b pattern of its combos - all 3^6 x 13 pockets, all 3^4 x 78 suited, all 3^12 = 531,441 x (quick 6, thorough all 78) offsuit rank pairs - embedded in a seeded background of neighbouring complete rank pairs and stray combos; the pocket/suited patterns again with the two weights +0.0 / -0.0; (2) proptest offsuit patterns biased to 'all but one present' and 'one weight differs' over all 78 offsuit pairs; (3) C06's row-pattern ranges with partial cells and arbitrary weights; (4) ranges obtained by parsing every well-formed token alone (either rank / card order) and generated token lists. (5) ranges with about 300 distinct weights (every rank pair its own weight, most pairs complete but for one combo with a second weight of its own); (6) long histories on one thread: a rank pair queried complete, then 230-245 or 65,500-65,515 queries of unrelated ranges, then 48 queries of the same pair with one combo missing (each query is a rank_pairs() and an orphan_card_pairs() call), covering the wrap points of 8- and 16-bit call counters. Oracle: rank_pairs() == the model's complete cells (both directions, weight bit-equal, high card first), orphan_card_pairs() == model leftovers, every combo covered exactly once by the two views. Non-trivial = some rank pair complete or almost complete (all present with one differing weight, or exactly one combo missing); distinct by range contents.".into();
    ctx.assumptions = vec!["entries made of one card twice (possible through FromIterator) are legal keys: they belong to no rank pair and stay among the leftovers".into(), "weights finite, >= 0, not NaN (NaN != NaN would make 'same weight' meaningless); -0.0 is a legal weight here and is the same weight as +0.0 (f32 equality), so reported weights are compared with ==".into()];
    let cells = all_cells();
    // pockets and suited: all patterns
    let small: Vec<(Cell, u32)> = cells.iter().filter(|c| c.kind != Kind::Offsuit).flat_map(|c| (0..3u32.pow(c.combos().len() as u32)).map(move |code| (*c, code))).collect();
    let n = small.len() as u64;
    ctx.run_enum_brief(
        StreamCfg::new("pocket_and_suited_patterns", CLASSES, n),
        n,
        true,
        |i| {
            let (cell, code) = small[i as usize];
            PatternCase { cell, code, wa: 1.0, wb: 0.5, background: background(i / 7) }
        },
        check_pattern,
        |c| json!({"cell": c.cell.name(), "code_base3": c.code, "background": c.background.len()}),
    );
    // the same patterns with the two weights +0.0 and -0.0 ("the same weight" under ==, different bits)
    ctx.run_enum_brief(
        StreamCfg::new("signed_zero_patterns", CLASSES, n),
        n,
        true,
        |i| {
            let (cell, code) = small[i as usize];
            PatternCase { cell, code, wa: 0.0, wb: -0.0, background: if i % 3 == 0 { background(i / 5) } else { vec![] } }
        },
        check_pattern,
        |c| json!({"cell": c.cell.name(), "code_base3": c.code, "weights": "+0.0 / -0.0"}),
    );
    let off: Vec<Cell> = cells.iter().copied().filter(|c| c.kind == Kind::Offsuit).collect();
    let chosen: Vec<Cell> = if ctx.tier == Tier::Quick {
        let s = ctx.seed as usize;
        (0..6).map(|k| off[(s + k * 13 + k * k) % 78]).collect()
    } else {
        off.clone()
    };
    let per = 3u64.pow(12);
    let n = per * chosen.len() as u64;
    ctx.run_enum_brief(
        StreamCfg::new("offsuit_patterns", CLASSES, n),
        n,
        true,
        |i| PatternCase { cell: chosen[(i / per) as usize], code: (i % per) as u32, wa: 0.25, wb: 1.0, background: if i % 5 == 0 { background(i / 11) } else { vec![] } },
        check_pattern,
        |c| json!({"cell": c.cell.name(), "code_base3": c.code, "background": c.background.len()}),
    );
    // biased offsuit patterns over all 78
    let cases = ctx.tier.pick(60_000, 1_000_000);
    let offc = off.clone();
    ctx.run_random_brief(
        StreamCfg::new("offsuit_almost_complete", CLASSES, cases),
        move || {
            let offc = offc.clone();
            (0usize..78, 0usize..12, 0u8..4, weight_any(), weight_any(), any::<u64>()).prop_map(move |(ci, pos, mode, wa, wb, seed)| {
                // start from all-a, then disturb one or two digits
                let mut digits = [1u32; 12];
                match mode {
                    0 => digits[pos] = 0,
                    1 => digits[pos] = 2,
                    2 => {
                        digits[pos] = 0;
                        digits[(pos + 5) % 12] = 2;
                    }
                    _ => {}
                }
                let code = digits.iter().rev().fold(0u32, |a, d| a * 3 + d);
                // one case in eight uses the signed zeros as the two weights
                let (wa, wb) = match seed % 8 {
                    0 => (0.0f32, -0.0f32),
                    1 => (-0.0f32, 0.0f32),
                    _ => (wa, wb),
                };
                PatternCase { cell: offc[ci], code, wa, wb, background: background(seed) }
            })
        },
        check_pattern,
        |c| json!({"cell": c.cell.name(), "code_base3": c.code, "wa": c.wa, "wb": c.wb}),
    );
    let cases = ctx.tier.pick(40_000, 600_000);
    ctx.run_random_brief(StreamCfg::new("row_pattern_ranges", CLASSES, cases), || range_strategy(8), check_range, |c| json!({"combos": c.combos.len()}));
    // ranges obtained by parsing: every well-formed token alone (either rank / card order), and
    // generated token lists
    let toks = all_tokens();
    let n = toks.len() as u64;
    ctx.run_enum_brief(StreamCfg::new("parsed_single_tokens", CLASSES, n), n, true, |i| toks[i as usize].text(), check_parsed, |t| json!(t));
    let cases = ctx.tier.pick(3_000, 40_000);
    ctx.run_random_brief(StreamCfg::new("parsed_token_lists", CLASSES, cases).shrink(200), || crate::props::c05::list_strategy(8).prop_map(|l| crate::props::c05::list_text(&l)), check_parsed, |t| json!(t));
    // several hundred distinct weights in one range
    let cases = ctx.tier.pick(600, 20_000);
    ctx.run_random_brief(StreamCfg::new("many_distinct_weights", CLASSES, cases).shrink(10), || any::<u64>().prop_map(many_weights_range), check_range, |c| json!({"combos": c.combos.len(), "distinct_weights": c.combos.iter().map(|x| x.2.to_bits()).collect::<std::collections::BTreeSet<_>>().len()}));
    // long histories on one thread (wrap points of 8- and 16-bit generation counters)
    let cases = ctx.tier.pick(48, 1_200);
    ctx.run_random_brief(StreamCfg::new("long_thread_histories", CLASSES, cases).shrink(20), history_strategy, check_history, |c| json!({"cell": c.cell.name(), "fillers": c.fillers, "probes": c.probes}));
    ctx.extra.insert("exhaustive_over".into(), json!(format!("all 3^6 patterns x 13 pockets, all 3^4 x 78 suited, all 3^12 x {} offsuit rank pairs ({})", chosen.len(), chosen.iter().map(|c| c.name()).collect::<Vec<_>>().join(","))));
    if ctx.tier == Tier::Thorough && !ctx.failed() {
        crate::fuzzrun::campaign(ctx, "fz_range", 1000, 16, 400);
    }
}

pub fn replay(stream: &str, path: &str, case: &Value) -> i32 {
    match stream {
        "row_pattern_ranges" => replay_case::<RangeCase>("C12", path, case, check_range),
        "parsed_single_tokens" | "parsed_token_lists" => replay_case::<String>("C12", path, case, check_parsed),
        "long_thread_histories" => replay_case::<HistoryCase>("C12", path, case, check_history),
        "many_distinct_weights" => replay_case::<RangeCase>("C12", path, case, check_range),
        _ => replay_case::<PatternCase>("C12", path, case, check_pattern),
    }
}
