//! C14 — a hole-card pair is an unordered pair with one canonical form.
//! Complete enumeration of all 52 x 51 ordered pairs of distinct cards.

use crate::cards::*;
use crate::runner::*;
use crate::{vensure, vfail};
use espada::hand_range::{CardPair, HandRange};
use serde_json::Value;
use std::hash::{Hash, Hasher};

pub type Case = (u8, u8);

fn h_default<T: Hash>(t: &T) -> u64 {
    let mut h = std::collections::hash_map::DefaultHasher::new();
    t.hash(&mut h);
    h.finish()
}
fn h_fx<T: Hash>(t: &T) -> u64 {
    let mut h = fxhash::FxHasher::default();
    t.hash(&mut h);
    h.finish()
}

pub fn check(case: &Case) -> CheckResult {
    let (a, b) = *case;
    vensure!(a != b && a < 52 && b < 52, "bad-case", "case outside the domain: {:?}", case);
    let (ca, cb) = (e_card(a), e_card(b));
    let p = CardPair::new(ca, cb);
    let q = CardPair::new(cb, ca);
    let nm = format!("{}{}", cname(a), cname(b));
    vensure!(p == q, "pair-eq", "new({0}) != new(reversed {0})", nm);
    vensure!(h_default(&p) == h_default(&q), "pair-hash-default", "{}: DefaultHasher hashes differ between the two construction orders", nm);
    vensure!(h_fx(&p) == h_fx(&q), "pair-hash-fx", "{}: FxHasher hashes differ between the two construction orders", nm);
    let (lo, hi) = norm_pair(a, b);
    for (x, which) in [(&p, "new(a,b)"), (&q, "new(b,a)")] {
        vensure!(cid_of(&x[0]) == lo && cid_of(&x[1]) == hi, "pair-canonical", "{} {}: elements are [{:?},{:?}], expected first = {} (orders first), second = {}", which, nm, x[0], x[1], cname(lo), cname(hi));
    }
    let text = p.to_string();
    match text.parse::<CardPair>() {
        Ok(r) => vensure!(r == p, "pair-text-roundtrip", "{}: text {:?} parses back as {:?}", nm, text, r),
        Err(e) => vfail!("pair-text-roundtrip", "{}: own text {:?} is rejected: {:?}", nm, text, e),
    }
    let (t1, t2) = (format!("{}{}", cname(a), cname(b)), format!("{}{}", cname(b), cname(a)));
    match (t1.parse::<CardPair>(), t2.parse::<CardPair>()) {
        (Ok(x), Ok(y)) => {
            vensure!(x == y, "pair-text-orders", "{:?} and {:?} parse to different pairs {:?} / {:?}", t1, t2, x, y);
            vensure!(x == p, "pair-text-value", "{:?} parses as {:?}, expected {:?}", t1, x, p);
        }
        (x, y) => vfail!("pair-text-orders", "{:?} -> {:?}, {:?} -> {:?}", t1, x, t2, y),
    }
    // a range keyed by pairs can never hold the same combo twice
    let r: HandRange = [(p, 0.25f32), (q, 0.75f32)].into_iter().collect();
    vensure!(r.card_pairs().len() == 1, "range-dup", "{}: range built from both orders holds {} entries", nm, r.card_pairs().len());
    vensure!(r.card_pairs().get(&p).map(|w| w.to_bits()) == Some(0.75f32.to_bits()), "range-dup-weight", "{}: later insert did not overwrite", nm);
    let mut n = 0;
    for (k, _) in &r {
        n += 1;
        vensure!(*k == p, "range-dup", "{}: iteration yields {:?}", nm, k);
    }
    vensure!(n == 1, "range-dup", "{}: iteration yields {} entries", nm, n);
    let cls = if a / 4 == b / 4 { 1 } else if a % 4 == b % 4 { 2 } else { 4 } | if a > b { 8 } else { 0 };
    Ok(Outcome::new(true, (a as u64) << 8 | b as u64, cls))
}

const CLASSES: &[&str] = &["pocket", "suited", "offsuit", "given_in_descending_order"];

pub fn run(ctx: &mut Ctx) {
    ctx.rule = "complete enumeration of the 52 x 51 ordered pairs of distinct cards; each case checks equality, two hashers, canonical element order, text round trip, both text orders, and single-entry ranges; all cases non-trivial and distinct by construction".into();
    ctx.assumptions = vec!["'orders first' is the (rank ace..deuce, suit s,h,d,c) order of C13".into()];
    ctx.exhaustive = true;
    let n = 52 * 51u64;
    ctx.run_enum_brief(
        StreamCfg::new("ordered_pairs", CLASSES, n),
        n,
        true,
        |i| {
            let a = (i / 51) as u8;
            let mut b = (i % 51) as u8;
            if b >= a {
                b += 1;
            }
            (a, b)
        },
        check,
        |c| serde_json::json!(format!("new({}, {})", cname(c.0), cname(c.1))),
    );
}

pub fn replay(_stream: &str, path: &str, case: &Value) -> i32 {
    replay_case::<Case>("C14", path, case, check)
}
