//! C14 — a hole-card pair is an unordered pair with one canonical form.
//! Complete enumeration of all 52 x 51 ordered pairs of distinct cards.

use crate::cards::*;
use crate::runner::*;
use crate::{vensure, vfail};
use espada::hand_range::{CardPair, HandRange};
use serde_json::Value;
use std::hash::{Hash, Hasher};

pub type Case = (u8, u8);

fn h_default<T: Hash>(t: &T) -> u64 {
    let mut h = std::collections::hash_map::DefaultHasher::new();
    t.hash(&mut h);
    h.finish()
}
fn h_fx<T: Hash>(t: &T) -> u64 {
    let mut h = fxhash::FxHasher::default();
    t.hash(&mut h);
    h.finish()
}

pub fn check(case: &Case) -> CheckResult {
    let (a, b) = *case;
    vensure!(a != b && a < 52 && b < 52, "bad-case", "case outside the domain: {:?}", case);
    let (ca, cb) = (e_card(a), e_card(b));
    let p = CardPair::new(ca, cb);
    let q = CardPair::new(cb, ca);
    let nm = format!("{}{}", cname(a), cname(b));
    vensure!(p == q, "pair-eq", "new({0}) != new(reversed {0})", nm);
    vensure!(h_default(&p) == h_default(&q), "pair-hash-default", "{}: DefaultHasher hashes differ between the two construction orders", nm);
    vensure!(h_fx(&p) == h_fx(&q), "pair-hash-fx", "{}: FxHasher hashes differ between the two construction orders", nm);
    let (lo, hi) = norm_pair(a, b);
    for (x, which) in [(&p, "new(a,b)"), (&q, "new(b,a)")] {
        vensure!(cid_of(&x[0]) == lo && cid_of(&x[1]) == hi, "pair-canonical", "{} {}: elements are [{:?},{:?}], expected first = {} (orders first), second = {}", which, nm, x[0], x[1], cname(lo), cname(hi));
    }
    let text = p.to_string();
    match text.parse::<CardPair>() {
        Ok(r) => vensure!(r == p, "pair-text-roundtrip", "{}: text {:?} parses back as {:?}", nm, text, r),
        Err(e) => vfail!("pair-text-roundtrip", "{}: own text {:?} is rejected: {:?}", nm, text, e),
    }
    let (t1, t2) = (format!("{}{}", cname(a), cname(b)), format!("{}{}", cname(b), cname(a)));
    match (t1.parse::<CardPair>(), t2.parse::<CardPair>()) {
        (Ok(x), Ok(y)) => {
            vensure!(x == y, "pair-text-orders", "{:?} and {:?} parse to different pairs {:?} / {:?}", t1, t2, x, y);
            vensure!(x == p, "pair-text-value", "{:?} parses as {:?}, expected {:?}", t1, x, p);
        }
        (x, y) => vfail!("pair-text-orders", "{:?} -> {:?}, {:?} -> {:?}", t1, x, t2, y),
    }
    // a range keyed by pairs can never hold the same combo twice
    let r: HandRange = [(p, 0.25f32), (q, 0.75f32)].into_iter().collect();
    vensure!(r.card_pairs().len() == 1, "range-dup", "{}: range built from both orders holds {} entries", nm, r.card_pairs().len());
    vensure!(r.card_pairs().get(&p).map(|w| w.to_bits()) == Some(0.75f32.to_bits()), "range-dup-weight", "{}: later insert did not overwrite", nm);
    let mut n = 0;
    for (k, _) in &r {
        n += 1;
        vensure!(*k == p, "range-dup", "{}: iteration yields {:?}", nm, k);
    }
    vensure!(n == 1, "range-dup", "{}: iteration yields {} entries", nm, n);
    let cls = if a / 4 == b / 4 { 1 } else if a % 4 == b % 4 { 2 } else { 4 } | if a > b { 8 } else { 0 };
    Ok(Outcome::new(true, (a as u64) << 8 | b as u64, cls))
}

const CLASSES: &[&str] = &["pocket", "suited", "offsuit", "given_in_descending_order"];

/// Pairs the library builds itself (token / rank-pair expansion, parsing) must be in the same
/// canonical form as CardPair::new gives, otherwise "a range keyed by pairs" can hold a combo twice.
pub fn canonical(p: &CardPair, origin: &str) -> Result<(), Fail> {
    let (a, b) = (cid_of(&p[0]), cid_of(&p[1]));
    let n = CardPair::new(p[0], p[1]);
    if !(a < b) || n != *p || h_default(&n) != h_default(p) || h_fx(&n) != h_fx(p) {
        return Err(Fail::new(
            "non-canonical-pair",
            format!("{} yields the pair [{:?}, {:?}] which is not in canonical form (first element must be the card that orders first; CardPair::new of the same cards gives {:?}, equal: {})", origin, p[0], p[1], n, n == *p),
        ));
    }
    Ok(())
}

/// Every pair obtained from a well-formed token, in both spellings, is canonical, and a range
/// parsed from the token followed by its mirrored spelling holds every combo once.
pub fn check_token_pairs(t: &crate::notation::Tok) -> CheckResult {
    use crate::notation::Tok;
    let text = t.text();
    let mirrored = match *t {
        Tok::Pair(s, x, y) => Some(Tok::Pair(s, y, x).text()),
        Tok::Combo(a, b) => Some(Tok::Combo(b, a).text()),
        _ => None,
    };
    let Ok(tok) = text.parse::<espada::hand_range::HandRangeToken>() else {
        return Ok(Outcome::default()); // C05's subject
    };
    let mut n = 0usize;
    for (p, _) in tok {
        canonical(&p, &format!("expanding the token {:?}", text))?;
        n += 1;
    }
    let want = t.combos().len();
    let list = match &mirrored {
        Some(m) => format!("{},{}:0.5,{}", text, m, text),
        None => format!("{},{}:0.5", text, text),
    };
    if let Ok(r) = list.parse::<HandRange>() {
        for (p, _) in &r {
            canonical(p, &format!("parsing the range {:?}", list))?;
        }
        vensure!(r.card_pairs().len() == want, "range-holds-combo-twice", "range {:?} holds {} entries for {} distinct combos", list, r.card_pairs().len(), want);
        // decomposition views are keyed by pairs as well
        for (p, _) in r.orphan_card_pairs().iter() {
            canonical(p, &format!("orphan_card_pairs() of {:?}", list))?;
        }
    }
    let _ = n;
    Ok(Outcome::new(true, hash_str(&text), if mirrored.is_some() { 16 } else { 32 }))
}
const TOKEN_CLASSES: &[&str] = &["", "", "", "", "token_with_mirrored_spelling", "other_token"];

/// RankPair values built through the API in either rank order
pub fn check_rank_pair(c: &(u8, u8, u8)) -> CheckResult {
    use espada::hand_range::RankPair;
    let (kind, x, y) = *c;
    let rp = match kind {
        0 => RankPair::Pocket(e_rank(x)),
        1 => RankPair::Suited(e_rank(x), e_rank(y)),
        _ => RankPair::Ofsuit(e_rank(x), e_rank(y)),
    };
    let mut seen = std::collections::BTreeSet::new();
    for p in rp {
        canonical(&p, &format!("expanding {:?}", rp))?;
        vensure!(seen.insert(pair_ids(&p)), "rank-pair-duplicate", "{:?} yields {:?} twice", rp, p);
    }
    let want = match kind {
        0 => 6,
        1 => 4,
        _ => 12,
    };
    vensure!(seen.len() == want, "rank-pair-count", "{:?} yields {} combos", rp, seen.len());
    Ok(Outcome::new(true, (kind as u64) << 16 | (x as u64) << 8 | y as u64, 1 << kind))
}

pub fn run(ctx: &mut Ctx) {
    ctx.rule = "complete enumeration of the 52 x 51 ordered pairs of distinct cards; each case checks equality, two hashers, canonical element order, text round trip, both text orders, and single-entry ranges; all cases non-trivial and distinct by construction. Consequence clause ('a range keyed by pairs can never hold the same combo twice'): every pair the library builds itself - expansion of all 3,796 well-formed tokens, of all 13+156+156 RankPair values in either rank order, ranges parsed from a token followed by its mirrored spelling, the leftover view, proptest lists of 1-430 explicit card-pair tokens with the two cards in random order and some combos repeated in the other spelling - must be in the canonical form of CardPair::new, and such a range must hold each combo once".into();
    ctx.assumptions = vec!["'orders first' is the (rank ace..deuce, suit s,h,d,c) order of C13".into()];
    ctx.exhaustive = env_scale() >= 1.0;
    let n = 52 * 51u64;
    ctx.run_enum_brief(
        StreamCfg::new("ordered_pairs", CLASSES, n),
        n,
        true,
        |i| {
            let a = (i / 51) as u8;
            let mut b = (i % 51) as u8;
            if b >= a {
                b += 1;
            }
            (a, b)
        },
        check,
        |c| serde_json::json!(format!("new({}, {})", cname(c.0), cname(c.1))),
    );
    run_library_built_pairs(ctx);
}

/// long lists made only of explicit card-pair tokens, cards of each token in random order, some
/// combos repeated in the other spelling: every stored key must be canonical, each combo stored once
#[derive(Clone, Debug, serde::Serialize, serde::Deserialize)]
pub struct ExplicitList {
    /// (card a, card b, weight literal index) in the order written
    pub toks: Vec<(u8, u8, u8)>,
}
pub fn explicit_text(c: &ExplicitList) -> String {
    const W: [&str; 4] = ["", ":0.5", ":0.25", ":1"];
    c.toks.iter().map(|(a, b, w)| format!("{}{}{}", cname(*a), cname(*b), W[*w as usize % 4])).collect::<Vec<_>>().join(",")
}
pub fn check_explicit_list(c: &ExplicitList) -> CheckResult {
    vensure!(c.toks.iter().all(|(a, b, _)| a != b && *a < 52 && *b < 52), "bad-case", "not card pairs");
    let text = explicit_text(c);
    let Ok(r) = text.parse::<HandRange>() else {
        return Ok(Outcome::default());
    };
    for (p, _) in &r {
        canonical(p, &format!("parsing a list of {} explicit card-pair tokens", c.toks.len()))?;
    }
    let distinct: std::collections::BTreeSet<(u8, u8)> = c.toks.iter().map(|(a, b, _)| norm_pair(*a, *b)).collect();
    vensure!(r.card_pairs().len() == distinct.len(), "range-holds-combo-twice", "a list of {} explicit tokens naming {} distinct combos parses to {} entries", c.toks.len(), distinct.len(), r.card_pairs().len());
    // the text of the parsed range parses back to an equal range (keys included)
    if let Ok(back) = r.to_string().parse::<HandRange>() {
        vensure!(back == r, "range-text-roundtrip", "the parsed range and the parse of its own text compare unequal");
    }
    let reversed = c.toks.iter().filter(|(a, b, _)| a > b).count();
    let repeated = c.toks.len() - distinct.len();
    let mut cls = 0u64;
    if c.toks.len() > 169 {
        cls |= 64;
    }
    if repeated > 0 {
        cls |= 128;
    }
    Ok(Outcome::new(reversed > 0, hash_str(&text), cls))
}
const EXPLICIT_CLASSES: &[&str] = &["", "", "", "", "", "", "more_than_169_tokens", "combo_repeated_in_other_spelling"];

pub fn explicit_strategy() -> impl proptest::strategy::Strategy<Value = ExplicitList> {
    use proptest::prelude::*;
    (proptest::sample::subsequence(all_combos(), 1..=420), any::<u64>(), 0usize..12).prop_map(|(cs, seed, reps)| {
        let mut x = crate::runner::mix64(seed);
        let mut toks: Vec<(u8, u8, u8)> = cs
            .iter()
            .map(|p| {
                x = crate::runner::mix64(x);
                let w = ((x >> 8) % 4) as u8;
                if x & 1 == 1 {
                    (p.1, p.0, w)
                } else {
                    (p.0, p.1, w)
                }
            })
            .collect();
        for _ in 0..reps {
            x = crate::runner::mix64(x);
            let t = toks[(x % toks.len() as u64) as usize];
            toks.push((t.1, t.0, ((x >> 9) % 4) as u8));
        }
        // shuffle
        for i in (1..toks.len()).rev() {
            x = crate::runner::mix64(x);
            toks.swap(i, (x % (i as u64 + 1)) as usize);
        }
        ExplicitList { toks }
    })
}

pub fn run_library_built_pairs(ctx: &mut Ctx) {
    let cases = ctx.tier.pick(600, 12_000);
    ctx.run_random_brief(StreamCfg::new("long_explicit_lists", EXPLICIT_CLASSES, cases).shrink(200), explicit_strategy, check_explicit_list, |c| serde_json::json!(format!("{} tokens: {}...", c.toks.len(), explicit_text(c).chars().take(60).collect::<String>())));
    ctx.require_class("long_explicit_lists", "more_than_169_tokens", cases / 3);
    let toks = crate::notation::all_tokens();
    let n = toks.len() as u64;
    ctx.run_enum_brief(StreamCfg::new("pairs_from_tokens", TOKEN_CLASSES, n), n, true, |i| toks[i as usize].clone(), check_token_pairs, |t| serde_json::json!(t.text()));
    let mut rps: Vec<(u8, u8, u8)> = (0..13).map(|r| (0u8, r, r)).collect();
    for k in 1..3u8 {
        for x in 0..13 {
            for y in 0..13 {
                if x != y {
                    rps.push((k, x, y));
                }
            }
        }
    }
    let n = rps.len() as u64;
    ctx.run_enum_brief(StreamCfg::new("pairs_from_rank_pairs", CLASSES, n), n, true, |i| rps[i as usize], check_rank_pair, |c| serde_json::json!(format!("kind {} ranks {} {}", c.0, RANK_CH[c.1 as usize], RANK_CH[c.2 as usize])));
}

pub fn replay(stream: &str, path: &str, case: &Value) -> i32 {
    match stream {
        "pairs_from_tokens" => replay_case::<crate::notation::Tok>("C14", path, case, check_token_pairs),
        "pairs_from_rank_pairs" => replay_case::<(u8, u8, u8)>("C14", path, case, check_rank_pair),
        "long_explicit_lists" => replay_case::<ExplicitList>("C14", path, case, check_explicit_list),
        _ => replay_case::<Case>("C14", path, case, check),
    }
}
