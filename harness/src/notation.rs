//! Range-notation model: token AST, printer, parser and expander written from the standard poker
//! meaning of the notation; the 169-cell rank-pair grid with rows, complete/leftover split and
//! maximal runs.  Independent of espada's parser and formatter.

use crate::cards::*;
use serde::{Deserialize, Serialize};
use std::collections::BTreeMap;

#[derive(Clone, Copy, Debug, PartialEq, Eq, Hash, PartialOrd, Ord, Serialize, Deserialize)]
pub enum Kind {
    Pocket,
    Suited,
    Offsuit,
}

#[derive(Clone, Debug, PartialEq, Eq, Hash, Serialize, Deserialize)]
pub enum Tok {
    /// "QQ"
    Pocket(u8),
    /// "QQ+" = AA..QQ
    PocketPlus(u8),
    /// "88-66": (top, bottom) as rank indexes, top < bottom
    PocketSpan(u8, u8),
    /// "JTs" / "72o", ranks as written (either order), x != y
    Pair(bool, u8, u8),
    /// "A9s+": high card, weakest kicker; kickers run from just below the high card down to it
    PairPlus(bool, u8, u8),
    /// "AQs-A9s": high card, strongest kicker, weakest kicker (hi < k1 < k2 as indexes)
    PairSpan(bool, u8, u8, u8),
    /// "AsKs": card ids in the order written, a != b
    Combo(u8, u8),
}

fn so(suited: bool) -> char {
    if suited {
        's'
    } else {
        'o'
    }
}
fn rc(r: u8) -> char {
    RANK_CH[r as usize]
}

impl Tok {
    pub fn text(&self) -> String {
        match *self {
            Tok::Pocket(r) => format!("{0}{0}", rc(r)),
            Tok::PocketPlus(r) => format!("{0}{0}+", rc(r)),
            Tok::PocketSpan(a, b) => format!("{0}{0}-{1}{1}", rc(a), rc(b)),
            Tok::Pair(s, x, y) => format!("{}{}{}", rc(x), rc(y), so(s)),
            Tok::PairPlus(s, h, k) => format!("{}{}{}+", rc(h), rc(k), so(s)),
            Tok::PairSpan(s, h, k1, k2) => format!("{0}{1}{3}-{0}{2}{3}", rc(h), rc(k1), rc(k2), so(s)),
            Tok::Combo(a, b) => format!("{}{}", cname(a), cname(b)),
        }
    }
    /// the rank-pair cells the token covers (empty for a single combo)
    pub fn cells(&self) -> Vec<Cell> {
        match *self {
            Tok::Pocket(r) => vec![Cell::pocket(r)],
            Tok::PocketPlus(r) => (0..=r).map(Cell::pocket).collect(),
            Tok::PocketSpan(a, b) => (a..=b).map(Cell::pocket).collect(),
            Tok::Pair(s, x, y) => vec![Cell::pair(s, x.min(y), x.max(y))],
            Tok::PairPlus(s, h, k) => ((h + 1)..=k).map(|kk| Cell::pair(s, h, kk)).collect(),
            Tok::PairSpan(s, h, k1, k2) => (k1..=k2).map(|kk| Cell::pair(s, h, kk)).collect(),
            Tok::Combo(..) => vec![],
        }
    }
    /// the hole-card combos the token denotes, as unordered id pairs, each once
    pub fn combos(&self) -> Vec<(u8, u8)> {
        match *self {
            Tok::Combo(a, b) => vec![norm_pair(a, b)],
            _ => self.cells().iter().flat_map(|c| c.combos()).collect(),
        }
    }
    pub fn well_formed(&self) -> bool {
        match *self {
            Tok::Pocket(r) | Tok::PocketPlus(r) => r < 13,
            Tok::PocketSpan(a, b) => a < b && b < 13,
            Tok::Pair(_, x, y) => x != y && x < 13 && y < 13,
            Tok::PairPlus(_, h, k) => h < k && k < 13,
            Tok::PairSpan(_, h, k1, k2) => h < k1 && k1 < k2 && k2 < 13,
            Tok::Combo(a, b) => a != b && a < 52 && b < 52,
        }
    }
}

/// every well-formed token: 13 + 13 + 78 + 312 + 156 + 572 + 2652 = 3796
pub fn all_tokens() -> Vec<Tok> {
    let mut v = vec![];
    for r in 0..13 {
        v.push(Tok::Pocket(r));
    }
    for r in 0..13 {
        v.push(Tok::PocketPlus(r));
    }
    for a in 0..13 {
        for b in (a + 1)..13 {
            v.push(Tok::PocketSpan(a, b));
        }
    }
    for s in [true, false] {
        for x in 0..13 {
            for y in 0..13 {
                if x != y {
                    v.push(Tok::Pair(s, x, y));
                }
            }
        }
    }
    for s in [true, false] {
        for h in 0..13 {
            for k in (h + 1)..13 {
                v.push(Tok::PairPlus(s, h, k));
            }
        }
    }
    for s in [true, false] {
        for h in 0..13 {
            for k1 in (h + 1)..13 {
                for k2 in (k1 + 1)..13 {
                    v.push(Tok::PairSpan(s, h, k1, k2));
                }
            }
        }
    }
    for a in 0..52 {
        for b in 0..52 {
            if a != b {
                v.push(Tok::Combo(a, b));
            }
        }
    }
    assert_eq!(v.len(), 3796);
    v
}

/// token with an optional weight literal (text after ':')
#[derive(Clone, Debug, PartialEq, Eq, Hash, Serialize, Deserialize)]
pub struct WTok {
    pub tok: Tok,
    pub weight: Option<String>,
}
impl WTok {
    pub fn text(&self) -> String {
        match &self.weight {
            Some(w) => format!("{}:{}", self.tok.text(), w),
            None => self.tok.text(),
        }
    }
    /// value of the literal (std's f32 parser is trusted), 1 when omitted
    pub fn value(&self) -> f32 {
        match &self.weight {
            Some(w) => w.parse::<f32>().expect("weight literal"),
            None => 1.0,
        }
    }
}

/// The model's own strict parser of one token text (used to read espada's output in C17 and as a
/// recogniser of well-formed tokens).  Weight grammar of the model: 0, 1, 0.ddd, 1.000.
pub fn parse_token(s: &str) -> Option<WTok> {
    let (body, weight) = match s.split_once(':') {
        Some((b, w)) => {
            let ok = {
                let (ip, fp) = match w.split_once('.') {
                    Some((i, f)) => (i, Some(f)),
                    None => (w, None),
                };
                (ip == "0" || ip == "1") && fp.map(|f| !f.is_empty() && f.bytes().all(|c| c.is_ascii_digit())).unwrap_or(true)
            };
            if !ok {
                return None;
            }
            (b, Some(w.to_string()))
        }
        None => (s, None),
    };
    let ch: Vec<char> = body.chars().collect();
    let rk = |c: char| RANK_CH.iter().position(|x| *x == c).map(|p| p as u8);
    let su = |c: char| SUIT_CH.iter().position(|x| *x == c).map(|p| p as u8);
    let kind = |c: char| match c {
        's' => Some(true),
        'o' => Some(false),
        _ => None,
    };
    let tok = match ch.len() {
        2 => {
            let (a, b) = (rk(ch[0])?, rk(ch[1])?);
            if a == b {
                Tok::Pocket(a)
            } else {
                return None;
            }
        }
        3 => {
            let (a, b) = (rk(ch[0])?, rk(ch[1])?);
            if ch[2] == '+' {
                if a == b {
                    Tok::PocketPlus(a)
                } else {
                    return None;
                }
            } else {
                let s = kind(ch[2])?;
                if a == b {
                    return None;
                }
                Tok::Pair(s, a, b)
            }
        }
        4 => {
            if ch[3] == '+' {
                let (a, b, s) = (rk(ch[0])?, rk(ch[1])?, kind(ch[2])?);
                Tok::PairPlus(s, a, b)
            } else {
                let a = rk(ch[0])? * 4 + su(ch[1])?;
                let b = rk(ch[2])? * 4 + su(ch[3])?;
                Tok::Combo(a, b)
            }
        }
        5 => {
            if ch[2] != '-' {
                return None;
            }
            let (a, a2, b, b2) = (rk(ch[0])?, rk(ch[1])?, rk(ch[3])?, rk(ch[4])?);
            if a != a2 || b != b2 {
                return None;
            }
            Tok::PocketSpan(a, b)
        }
        7 => {
            if ch[3] != '-' {
                return None;
            }
            let (h, k1, s) = (rk(ch[0])?, rk(ch[1])?, kind(ch[2])?);
            let (h2, k2, s2) = (rk(ch[4])?, rk(ch[5])?, kind(ch[6])?);
            if h != h2 || s != s2 {
                return None;
            }
            Tok::PairSpan(s, h, k1, k2)
        }
        _ => return None,
    };
    if !tok.well_formed() {
        return None;
    }
    Some(WTok { tok, weight })
}

// ---------------------------------------------------------------------------------------------
// the 169-cell grid

#[derive(Clone, Copy, Debug, PartialEq, Eq, Hash, PartialOrd, Ord, Serialize, Deserialize)]
pub struct Cell {
    pub kind: Kind,
    /// high card (pocket: the rank)
    pub hi: u8,
    /// kicker (pocket: the rank again)
    pub lo: u8,
}

impl Cell {
    pub fn pocket(r: u8) -> Cell {
        Cell { kind: Kind::Pocket, hi: r, lo: r }
    }
    pub fn pair(suited: bool, hi: u8, lo: u8) -> Cell {
        Cell { kind: if suited { Kind::Suited } else { Kind::Offsuit }, hi, lo }
    }
    pub fn combos(&self) -> Vec<(u8, u8)> {
        let mut v = vec![];
        match self.kind {
            Kind::Pocket => {
                for a in 0..4u8 {
                    for b in (a + 1)..4 {
                        v.push((self.hi * 4 + a, self.hi * 4 + b));
                    }
                }
            }
            Kind::Suited => {
                for s in 0..4u8 {
                    v.push(norm_pair(self.hi * 4 + s, self.lo * 4 + s));
                }
            }
            Kind::Offsuit => {
                for a in 0..4u8 {
                    for b in 0..4u8 {
                        if a != b {
                            v.push(norm_pair(self.hi * 4 + a, self.lo * 4 + b));
                        }
                    }
                }
            }
        }
        v
    }
    pub fn name(&self) -> String {
        match self.kind {
            Kind::Pocket => format!("{0}{0}", rc(self.hi)),
            Kind::Suited => format!("{}{}s", rc(self.hi), rc(self.lo)),
            Kind::Offsuit => format!("{}{}o", rc(self.hi), rc(self.lo)),
        }
    }
}

/// the cell a combo belongs to
pub fn cell_of(p: (u8, u8)) -> Cell {
    let (a, b) = norm_pair(p.0, p.1);
    let (ra, rb) = (a / 4, b / 4);
    if ra == rb {
        Cell::pocket(ra)
    } else {
        Cell::pair(a % 4 == b % 4, ra, rb)
    }
}

/// The 25 rows in canonical order: pockets (aces down); then per high card A..3 its suited row and
/// its offsuit row (kickers from just below the high card down to the deuce).
pub fn rows() -> Vec<Vec<Cell>> {
    let mut v = vec![(0..13).map(Cell::pocket).collect::<Vec<_>>()];
    for hi in 0..12u8 {
        v.push(((hi + 1)..13).map(|k| Cell::pair(true, hi, k)).collect());
        v.push(((hi + 1)..13).map(|k| Cell::pair(false, hi, k)).collect());
    }
    v
}
pub fn all_cells() -> Vec<Cell> {
    rows().into_iter().flatten().collect()
}

pub type RangeMap = BTreeMap<(u8, u8), f32>;

/// complete cells (all combos present with the same weight) and leftover combos
pub fn split(m: &RangeMap) -> (BTreeMap<Cell, f32>, RangeMap) {
    let mut complete = BTreeMap::new();
    let mut left = m.clone();
    for c in all_cells() {
        let cs = c.combos();
        if let Some(w0) = m.get(&cs[0]) {
            if cs.iter().all(|p| m.get(p).map(|w| w == w0).unwrap_or(false)) {
                complete.insert(c, *w0);
                for p in &cs {
                    left.remove(p);
                }
            }
        }
    }
    (complete, left)
}

/// One maximal run: consecutive complete cells of one row with equal weight.
#[derive(Clone, Debug, PartialEq)]
pub struct Run {
    pub row: usize,
    pub cells: Vec<Cell>,
    pub weight: f32,
    /// starts at the first cell of its row
    pub at_row_top: bool,
}

pub fn maximal_runs(complete: &BTreeMap<Cell, f32>) -> Vec<Run> {
    let mut out = vec![];
    for (ri, row) in rows().iter().enumerate() {
        let mut cur: Option<Run> = None;
        for (i, c) in row.iter().enumerate() {
            match (complete.get(c), cur.as_mut()) {
                (Some(w), Some(r)) if *w == r.weight => r.cells.push(*c),
                (Some(w), _) => {
                    if let Some(r) = cur.take() {
                        out.push(r);
                    }
                    cur = Some(Run { row: ri, cells: vec![*c], weight: *w, at_row_top: i == 0 });
                }
                (None, _) => {
                    if let Some(r) = cur.take() {
                        out.push(r);
                    }
                }
            }
        }
        if let Some(r) = cur.take() {
            out.push(r);
        }
    }
    out
}

/// sequential-insert semantics of a token list (later token wins)
pub fn model_of_tokens(toks: &[WTok]) -> RangeMap {
    let mut m = RangeMap::new();
    for t in toks {
        let w = t.value();
        for p in t.tok.combos() {
            m.insert(p, w);
        }
    }
    m
}

pub fn espada_map(r: &espada::hand_range::HandRange) -> RangeMap {
    r.card_pairs().iter().map(|(k, v)| (pair_ids(k), *v)).collect()
}
pub fn to_espada(m: &RangeMap) -> espada::hand_range::HandRange {
    m.iter().map(|(k, v)| (e_pair(k.0, k.1), *v)).collect()
}

/// first difference between two range maps, bit-exact on weights
pub fn diff_maps(want: &RangeMap, got: &RangeMap) -> Option<String> {
    for (k, w) in want {
        match got.get(k) {
            None => return Some(format!("combo {} (weight {}) is missing", pname(*k), w)),
            Some(g) if g.to_bits() != w.to_bits() => return Some(format!("combo {} has weight {} ({:#x}), expected {} ({:#x})", pname(*k), g, g.to_bits(), w, w.to_bits())),
            _ => {}
        }
    }
    for (k, g) in got {
        if !want.contains_key(k) {
            return Some(format!("combo {} (weight {}) should not be there", pname(*k), g));
        }
    }
    None
}
