//! Reference poker-hand model: 5-card classifier, the 7,462 strength classes, best-of-21.
//! Written from the rules of poker; nothing here looks at espada's tables.

use crate::cards::Cid;
use fxhash::FxHashMap;

pub const CAT_NAMES: [&str; 9] = [
    "HighCard",
    "Pair",
    "TwoPair",
    "Trips",
    "Straight",
    "Flush",
    "FullHouse",
    "Quads",
    "StraightFlush",
];
/// number of distinct hand values per category (public constants of the game)
pub const CAT_COUNTS: [u32; 9] = [1277, 2860, 858, 858, 10, 1277, 156, 156, 10];

#[inline]
fn pack(cat: u32, a: u8, b: u8, c: u8, d: u8, e: u8) -> u32 {
    cat << 20 | (a as u32) << 16 | (b as u32) << 12 | (c as u32) << 8 | (d as u32) << 4 | e as u32
}

/// Strength key of a 5-card hand: larger = stronger, equal = tie.  Allocation-free.
#[inline]
pub fn key5(c: &[Cid; 5]) -> u32 {
    let flush = (c[0] & 3) == (c[1] & 3) && (c[1] & 3) == (c[2] & 3) && (c[2] & 3) == (c[3] & 3) && (c[3] & 3) == (c[4] & 3);
    let mut v = [14 - (c[0] >> 2), 14 - (c[1] >> 2), 14 - (c[2] >> 2), 14 - (c[3] >> 2), 14 - (c[4] >> 2)];
    // sort descending (insertion sort, 5 elements)
    for i in 1..5 {
        let mut j = i;
        while j > 0 && v[j - 1] < v[j] {
            v.swap(j - 1, j);
            j -= 1;
        }
    }
    let m = (v[0] == v[1]) as u8 | ((v[1] == v[2]) as u8) << 1 | ((v[2] == v[3]) as u8) << 2 | ((v[3] == v[4]) as u8) << 3;
    match m {
        0 => {
            let straight_high = if v[0] - v[4] == 4 {
                v[0]
            } else if v == [14, 5, 4, 3, 2] {
                5
            } else {
                0
            };
            match (straight_high != 0, flush) {
                (true, true) => pack(8, straight_high, 0, 0, 0, 0),
                (true, false) => pack(4, straight_high, 0, 0, 0, 0),
                (false, true) => pack(5, v[0], v[1], v[2], v[3], v[4]),
                (false, false) => pack(0, v[0], v[1], v[2], v[3], v[4]),
            }
        }
        0b0111 => pack(7, v[0], v[4], 0, 0, 0),
        0b1110 => pack(7, v[1], v[0], 0, 0, 0),
        0b1011 => pack(6, v[0], v[3], 0, 0, 0),
        0b1101 => pack(6, v[2], v[0], 0, 0, 0),
        0b0011 => pack(3, v[0], v[3], v[4], 0, 0),
        0b0110 => pack(3, v[1], v[0], v[4], 0, 0),
        0b1100 => pack(3, v[2], v[0], v[1], 0, 0),
        0b0101 => pack(2, v[0], v[2], v[4], 0, 0),
        0b1001 => pack(2, v[0], v[3], v[2], 0, 0),
        0b1010 => pack(2, v[1], v[3], v[0], 0, 0),
        0b0001 => pack(1, v[0], v[2], v[3], v[4], 0),
        0b0010 => pack(1, v[1], v[0], v[3], v[4], 0),
        0b0100 => pack(1, v[2], v[0], v[1], v[4], 0),
        0b1000 => pack(1, v[3], v[0], v[1], v[2], 0),
        _ => unreachable!("five cards cannot hold five of a kind"),
    }
}

/// Same function written the slow, textbook way (rank counting); used to self-check `key5`.
pub fn key5_slow(c: &[Cid; 5]) -> u32 {
    let mut cnt = [0u8; 15];
    for x in c {
        cnt[(14 - (x >> 2)) as usize] += 1;
    }
    let flush = c.iter().all(|x| x & 3 == c[0] & 3);
    // groups sorted by (count desc, value desc)
    let mut groups: Vec<(u8, u8)> = (2..=14u8).filter(|v| cnt[*v as usize] > 0).map(|v| (cnt[v as usize], v)).collect();
    groups.sort_by(|a, b| b.cmp(a));
    let shape: Vec<u8> = groups.iter().map(|g| g.0).collect();
    let vals: Vec<u8> = groups.iter().map(|g| g.1).collect();
    let g = |i: usize| vals.get(i).copied().unwrap_or(0);
    match shape.as_slice() {
        [4, 1] => pack(7, g(0), g(1), 0, 0, 0),
        [3, 2] => pack(6, g(0), g(1), 0, 0, 0),
        [3, 1, 1] => pack(3, g(0), g(1), g(2), 0, 0),
        [2, 2, 1] => pack(2, g(0), g(1), g(2), 0, 0),
        [2, 1, 1, 1] => pack(1, g(0), g(1), g(2), g(3), 0),
        [1, 1, 1, 1, 1] => {
            let mut sh = 0;
            for high in (5..=14u8).rev() {
                let need: Vec<u8> = if high == 5 { vec![5, 4, 3, 2, 14] } else { (high - 4..=high).collect() };
                if need.iter().all(|v| cnt[*v as usize] == 1) {
                    sh = high;
                    break;
                }
            }
            match (sh != 0, flush) {
                (true, true) => pack(8, sh, 0, 0, 0, 0),
                (true, false) => pack(4, sh, 0, 0, 0, 0),
                (false, true) => pack(5, g(0), g(1), g(2), g(3), g(4)),
                (false, false) => pack(0, g(0), g(1), g(2), g(3), g(4)),
            }
        }
        _ => unreachable!(),
    }
}

pub const SUBSETS_21: [[usize; 5]; 21] = {
    let mut out = [[0usize; 5]; 21];
    let mut n = 0;
    let mut a = 0;
    while a < 7 {
        let mut b = a + 1;
        while b < 7 {
            // leave out a and b
            let mut k = 0;
            let mut i = 0;
            while i < 7 {
                if i != a && i != b {
                    out[n][k] = i;
                    k += 1;
                }
                i += 1;
            }
            n += 1;
            b += 1;
        }
        a += 1;
    }
    out
};

/// Best key among the 21 five-card subsets.
#[inline]
pub fn key7(c: &[Cid; 7]) -> u32 {
    let mut best = 0u32;
    for s in SUBSETS_21.iter() {
        let k = key5(&[c[s[0]], c[s[1]], c[s[2]], c[s[3]], c[s[4]]]);
        if k > best {
            best = k;
        }
    }
    best
}

pub struct ClassTable {
    /// keys sorted strongest first; class number = position + 1
    pub keys_desc: Vec<u32>,
    map: FxHashMap<u32, u16>,
    /// one example 5-card hand per class (index = class - 1)
    pub example: Vec<[Cid; 5]>,
}

impl ClassTable {
    /// Enumerates all C(52,5) hands; panics if the reference model contradicts the public
    /// constants of the game (a broken oracle must never turn into a reported violation).
    pub fn build() -> ClassTable {
        let mut seen: FxHashMap<u32, [Cid; 5]> = FxHashMap::default();
        let mut n = 0u32;
        for a in 0..52u8 {
            for b in (a + 1)..52 {
                for c in (b + 1)..52 {
                    for d in (c + 1)..52 {
                        for e in (d + 1)..52 {
                            let h = [a, b, c, d, e];
                            let k = key5(&h);
                            if n % 97 == 0 {
                                assert_eq!(k, key5_slow(&h), "oracle self-check: key5 != key5_slow on {:?}", h);
                            }
                            n += 1;
                            seen.entry(k).or_insert(h);
                        }
                    }
                }
            }
        }
        assert_eq!(n, 2_598_960);
        let mut keys: Vec<u32> = seen.keys().copied().collect();
        keys.sort_unstable_by(|a, b| b.cmp(a));
        assert_eq!(keys.len(), 7462, "oracle self-check: number of hand classes");
        let mut per_cat = [0u32; 9];
        for k in &keys {
            per_cat[(k >> 20) as usize] += 1;
        }
        assert_eq!(per_cat, CAT_COUNTS, "oracle self-check: classes per category");
        let mut map = FxHashMap::default();
        let mut example = Vec::with_capacity(7462);
        for (i, k) in keys.iter().enumerate() {
            map.insert(*k, (i + 1) as u16);
            example.push(seen[k]);
        }
        // every distinct key also agrees with the slow classifier
        for (k, h) in &seen {
            assert_eq!(*k, key5_slow(h), "oracle self-check: key5 != key5_slow on {:?}", h);
        }
        ClassTable {
            keys_desc: keys,
            map,
            example,
        }
    }

    #[inline]
    pub fn class_of_key(&self, k: u32) -> u16 {
        self.map[&k]
    }
    #[inline]
    pub fn class5(&self, c: &[Cid; 5]) -> u16 {
        self.class_of_key(key5(c))
    }
    #[inline]
    pub fn class7(&self, c: &[Cid; 7]) -> u16 {
        self.class_of_key(key7(c))
    }
    /// category index (0 = high card .. 8 = straight flush) of a class number
    #[inline]
    pub fn cat_of_class(&self, class: u16) -> u8 {
        (self.keys_desc[(class - 1) as usize] >> 20) as u8
    }
    pub fn describe(&self, class: u16) -> String {
        let h = self.example[(class - 1) as usize];
        format!("class {} ({}, e.g. {})", class, CAT_NAMES[self.cat_of_class(class) as usize], crate::cards::cnames(&h))
    }
}

pub fn table() -> &'static ClassTable {
    static T: std::sync::OnceLock<ClassTable> = std::sync::OnceLock::new();
    T.get_or_init(ClassTable::build)
}
