//! C08 child: reads configurations (one JSON object per line: {"id":..,"cfg":..,"limit":..}) from
//! stdin; for each, builds the evaluator INSIDE a thread created with a 2 MiB stack and drains it.
//! Prints one line per finished case: "OK <id> <count>", "OVER <id>", "PANIC <id> <message>".
//! A stack overflow aborts the process (observed by the parent).  Built in two profiles:
//! release (wrapping arithmetic) and dbgchk (espada unoptimised, overflow checks + debug
//! assertions on).
use espada_verif::evalmodel::Config;
use std::io::{BufRead, Write};

fn main() {
    static LOC: std::sync::Mutex<String> = std::sync::Mutex::new(String::new());
    std::panic::set_hook(Box::new(|info| {
        let loc = info
            .location()
            .map(|l| {
                let f = l.file();
                let f = f.rsplit_once("/src/").map(|(_, b)| format!("src/{}", b)).unwrap_or(f.to_string());
                format!("{}:{}", f, l.line())
            })
            .unwrap_or_else(|| "?".into());
        *LOC.lock().unwrap() = loc;
    }));
    let stdin = std::io::stdin();
    for line in stdin.lock().lines() {
        let Ok(line) = line else { break };
        if line.trim().is_empty() {
            continue;
        }
        let v: serde_json::Value = serde_json::from_str(&line).expect("child: bad json");
        let id = v["id"].as_u64().unwrap_or(0);
        let limit = v["limit"].as_u64().unwrap_or(u64::MAX);
        // how the iterator is consumed: 0 = for loop, 1 = size_hint() before every next(),
        // 2 = collect() (a size hint and a fold), 3 = nth() with steps 0..3
        let style = v["style"].as_u64().unwrap_or(0);
        // Some(k): only the first k showdowns are taken (configurations far too large to drain)
        let take = v["take"].as_u64();
        let cfg: Config = serde_json::from_value(v["cfg"].clone()).expect("child: bad cfg");
        let h = std::thread::Builder::new()
            .stack_size(2 << 20)
            .spawn(move || -> Result<u64, u64> {
                let mut n = 0u64;
                if let Some(k) = take {
                    let mut it = cfg.evaluator().into_iter();
                    std::hint::black_box(it.size_hint());
                    let head: Vec<espada::evaluator::Showdown> = it.by_ref().take(k.min(2) as usize).collect();
                    n += head.len() as u64;
                    while n < k {
                        std::hint::black_box(it.size_hint());
                        match it.next() {
                            Some(s) => {
                                std::hint::black_box(&s);
                                n += 1;
                            }
                            None => break,
                        }
                    }
                    std::hint::black_box(it.size_hint());
                    return Ok(n);
                }
                match style {
                    1 => {
                        let mut it = cfg.evaluator().into_iter();
                        loop {
                            std::hint::black_box(it.size_hint());
                            match it.next() {
                                Some(s) => {
                                    std::hint::black_box(&s);
                                    n += 1;
                                    if n > limit {
                                        return Err(n);
                                    }
                                }
                                None => break,
                            }
                        }
                        std::hint::black_box(it.size_hint());
                    }
                    2 if limit <= 150_000 => {
                        let v: Vec<espada::evaluator::Showdown> = cfg.evaluator().into_iter().take(limit as usize + 1).collect();
                        n = v.len() as u64;
                        if n > limit {
                            return Err(n);
                        }
                    }
                    3 => {
                        let mut it = cfg.evaluator().into_iter();
                        loop {
                            let k = n % 4;
                            match it.nth(k as usize) {
                                Some(s) => {
                                    std::hint::black_box(&s);
                                    n += 1;
                                    if n > limit {
                                        return Err(n);
                                    }
                                }
                                None => break,
                            }
                        }
                    }
                    _ => {
                        for s in cfg.evaluator() {
                            std::hint::black_box(&s);
                            n += 1;
                            if n > limit {
                                return Err(n);
                            }
                        }
                    }
                }
                Ok(n)
            })
            .expect("child: spawn");
        let out = std::io::stdout();
        let mut out = out.lock();
        match h.join() {
            Ok(Ok(n)) => writeln!(out, "OK {} {}", id, n).unwrap(),
            Ok(Err(_)) => writeln!(out, "OVER {}", id).unwrap(),
            Err(e) => {
                let msg = if let Some(s) = e.downcast_ref::<&str>() {
                    s.to_string()
                } else if let Some(s) = e.downcast_ref::<String>() {
                    s.clone()
                } else {
                    "<non-string panic>".into()
                };
                writeln!(out, "PANIC {} {} at {}", id, msg.replace('\n', " "), LOC.lock().unwrap()).unwrap()
            }
        }
        out.flush().unwrap();
    }
}
