//! C16 — the multi-thread example's work splitter tiles the enumeration for every worker count.
//! `calculate_scopes` is compiled from the example's own source file by path, so this binary is
//! isolated from the rest of the harness (a change to the example can only break C16).
#[allow(dead_code)]
#[path = "../../../espada-src/examples/multi-thread/scope.rs"]
mod scope;

use espada_verif::evalmodel::*;
use espada_verif::props::c04::{compare, sweep_configs, FullRun};
use espada_verif::runner::*;
use espada_verif::{vensure, vfail};
use proptest::prelude::*;
use scope::calculate_scopes;
use serde_json::{json, Value};
use std::sync::Arc;

fn valid_pos(t: u8, r: u8) -> bool {
    (t < r && r <= 48) || (t == 48 && r == 49)
}

fn structural(n: u32) -> CheckResult {
    vensure!(n >= 1, "bad-case", "n >= 1");
    let scopes = match catch(|| calculate_scopes(n)) {
        Ok(s) => s,
        Err(p) => vfail!("calculate-scopes-panic", "calculate_scopes({}) panicked: {}", n, p),
    };
    vensure!(scopes.len() == n as usize, "scope-count", "calculate_scopes({}) returns {} scopes", n, scopes.len());
    let first = scopes[0];
    vensure!((first.turn_from, first.river_from) == (0, 1), "first-start", "n = {}: first scope starts at ({}, {}), expected (0, 1)", n, first.turn_from, first.river_from);
    let last = scopes[scopes.len() - 1];
    vensure!((last.turn_to, last.river_to) == (48, 49), "last-end", "n = {}: last scope ends at ({}, {}), expected (48, 49)", n, last.turn_to, last.river_to);
    let mut empty = 0u32;
    for (i, s) in scopes.iter().enumerate() {
        if i > 0 {
            let p = scopes[i - 1];
            vensure!((s.turn_from, s.river_from) == (p.turn_to, p.river_to), "not-contiguous", "n = {}: scope {} starts at ({}, {}) but scope {} ended at ({}, {})", n, i, s.turn_from, s.river_from, i - 1, p.turn_to, p.river_to);
        }
        vensure!(valid_pos(s.turn_from, s.river_from), "invalid-position", "n = {}: scope {} starts at ({}, {}), which is not a position (turn < river <= 48, or the terminal (48, 49))", n, i, s.turn_from, s.river_from);
        vensure!(valid_pos(s.turn_to, s.river_to), "invalid-position", "n = {}: scope {} ends at ({}, {}), which is not a position (turn < river <= 48, or the terminal (48, 49))", n, i, s.turn_to, s.river_to);
        vensure!((s.turn_from, s.river_from) <= (s.turn_to, s.river_to), "steps-backwards", "n = {}: scope {} runs from ({}, {}) back to ({}, {})", n, i, s.turn_from, s.river_from, s.turn_to, s.river_to);
        if (s.turn_from, s.river_from) == (s.turn_to, s.river_to) {
            empty += 1;
        }
    }
    let mut cls = 0u64;
    if empty > 0 {
        cls |= 1;
    }
    if n > 1176 {
        cls |= 2;
    }
    Ok(Outcome::new(n >= 2, n as u64, cls))
}
const CLASSES: &[&str] = &["has_empty_scope", "more_workers_than_positions", "end_to_end"];

/// feed the scopes to real evaluators, as the example does, and compare with the unscoped run
fn end_to_end(full: &FullRun, n: u32) -> CheckResult {
    let scopes = match catch(|| calculate_scopes(n)) {
        Ok(s) => s,
        Err(p) => vfail!("calculate-scopes-panic", "calculate_scopes({}) panicked: {}", n, p),
    };
    let mut all: Seq = vec![];
    for (i, s) in scopes.iter().enumerate() {
        let mut cfg = full.cfg.clone();
        cfg.scope = Some((s.turn_from, s.river_from, s.turn_to, s.river_to));
        let part = match catch(|| run_seq(&cfg, full.seq.len() + 1, 0)) {
            Ok(r) => r?,
            Err(p) => vfail!("worker-panic", "n = {}: the worker for scope {} ({}, {})..({}, {}) panicked: {}", n, i, s.turn_from, s.river_from, s.turn_to, s.river_to, p),
        };
        all.extend(part);
        vensure!(all.len() <= full.seq.len(), "double-counting", "n = {}: after scope {} the workers have produced {} showdowns, the single-threaded run has {}", n, i, all.len(), full.seq.len());
    }
    compare(full, 0, 1176, &all, &format!("n = {}: concatenated worker results", n))?;
    vensure!(all.len() == full.seq.len(), "sum-differs", "n = {}: workers produce {} showdowns, single-threaded {}", n, all.len(), full.seq.len());
    structural(n)?;
    Ok(Outcome::new(n >= 2, n as u64, 4))
}

fn run(tier: Tier) -> i32 {
    start_watchdog("C16", tier);
    let mut ctx = Ctx::new("C16", tier);
    ctx.rule = "worker counts n: every n in 1..=N (quick N = 32,768, thorough 262,144) plus proptest n up to 2^27 (including the neighbourhood of 2^24, where f32 stops representing n exactly), calculate_scopes compiled from the example's own scope.rs; oracle: n scopes, first starts at (0,1), last ends at (48,49), each starts where the previous ended, from <= to, every endpoint a valid position (turn < river <= 48 or (48,49)). End to end for every n <= 1,024 (thorough 4,096) and sampled larger n: the scopes are given to real evaluators over two fixed configurations exactly as the example does and the concatenated showdowns must equal the unscoped run. Non-trivial = n >= 2; distinct = distinct n.".into();
    ctx.assumptions = vec!["end-to-end uses two fixed cheap configurations; the structural conditions are checked for every n".into()];
    ctx.exhaustive = env_scale() >= 1.0;
    let nmax = tier.pick(32_768u64, 262_144u64);
    ctx.run_enum_brief(StreamCfg::new("all_n", CLASSES, nmax), nmax, true, |i| (i + 1) as u32, |n: &u32| structural(*n), |n| json!(n));
    let cfgs = sweep_configs();
    for (k, name) in [(0usize, "end_to_end_cfg0"), (1usize, "end_to_end_cfg1")] {
        let full = match catch(|| FullRun::new(&cfgs[k])) {
            Ok(Ok(f)) => Arc::new(f),
            _ => {
                // the unscoped run itself is broken: C02/C04's subject; C16 cannot be decided
                ctx.unhealthy.push(format!("unscoped reference run of configuration {} failed", k));
                continue;
            }
        };
        let m = tier.pick(1_024u64, 4_096u64);
        let f2 = full.clone();
        ctx.run_enum_brief(StreamCfg::new(name, CLASSES, m), m, true, |i| (i + 1) as u32, move |n: &u32| end_to_end(&f2, *n), |n| json!(n));
    }
    if let Ok(Ok(full)) = catch(|| FullRun::new(&cfgs[0])) {
        let full = Arc::new(full);
        let cases = tier.pick(400, 4_000);
        ctx.run_random_brief(StreamCfg::new("end_to_end_sampled", CLASSES, cases), || 1u32..20_000, move |n: &u32| end_to_end(&full, *n), |n| json!(n));
    }
    let cases = tier.pick(200, 2_000);
    ctx.run_random_brief(StreamCfg::new("large_n", CLASSES, cases), || prop_oneof![3 => 1u32..(1 << 22), 2 => 1u32..100_000, 1 => (1u32 << 24)..(1 << 27), 1 => ((1u32 << 24) - 40)..((1 << 24) + 40)], |n: &u32| structural(*n), |n| json!(n));
    ctx.extra.insert("exhaustive_over".into(), json!(format!("every worker count n in 1..={}", nmax)));
    ctx.finish()
}

fn main() {
    install_panic_hook();
    let args: Vec<String> = std::env::args().collect();
    let code = match args.get(1).map(|s| s.as_str()) {
        Some("quick") => run(Tier::Quick),
        Some("thorough") => run(Tier::Thorough),
        Some("--replay") => {
            let path = args.get(2).cloned().unwrap_or_default();
            let v: Value = std::fs::read_to_string(&path).ok().and_then(|t| serde_json::from_str(&t).ok()).unwrap_or(Value::Null);
            let stream = v["stream"].as_str().unwrap_or("").to_string();
            let cfgs = sweep_configs();
            if stream.starts_with("end_to_end") {
                let k = if stream.ends_with("cfg1") { 1 } else { 0 };
                let full = FullRun::new(&cfgs[k]).unwrap();
                replay_case::<u32>("C16", &path, &v["case"], |n| end_to_end(&full, *n))
            } else {
                replay_case::<u32>("C16", &path, &v["case"], |n| structural(*n))
            }
        }
        _ => {
            eprintln!("usage: c16_scopes quick|thorough|--replay <file>");
            2
        }
    };
    std::process::exit(code)
}
