//! C15 thread part (isolated so that a Send/Sync regression breaks only this binary).
//! Reads one ThreadCase (JSON) from stdin; prints "OK" or "FAIL <signature> <what>".
use espada::card::Card;
use espada::evaluator::{FlopExhaustiveEvaluator, MadeHand, Showdown};
use espada::hand_range::{CardPair, HandRange, HandRangeToken};
use espada_verif::cards::e_board;
use espada_verif::evalmodel::*;
use espada_verif::props::c15::ThreadCase;
use std::io::Read;
use std::sync::{mpsc, Arc, Barrier};

// compile-time: "Evaluators, ranges and showdowns can be moved to and shared between threads."
fn assert_send_sync<T: Send + Sync>() {}
#[allow(dead_code)]
fn static_assertions() {
    assert_send_sync::<FlopExhaustiveEvaluator>();
    assert_send_sync::<<FlopExhaustiveEvaluator as IntoIterator>::IntoIter>();
    assert_send_sync::<HandRange>();
    assert_send_sync::<Showdown>();
    assert_send_sync::<HandRangeToken>();
    assert_send_sync::<MadeHand>();
    assert_send_sync::<CardPair>();
    assert_send_sync::<Card>();
}

fn fingerprint(tr: &Translator, shows: &[Showdown]) -> Seq {
    shows
        .iter()
        .map(|s| {
            let (t, r, fp) = tr.light(s);
            (pos_index(t.min(r), t.max(r)), fp)
        })
        .collect()
}

fn fail(sig: &str, what: String) -> ! {
    println!("FAIL {} {}", sig, what.replace('\n', " "));
    std::process::exit(0)
}

fn main() {
    let mut inp = String::new();
    std::io::stdin().read_to_string(&mut inp).unwrap();
    let c: ThreadCase = serde_json::from_str(inp.trim()).expect("bad case");
    let k = c.cfgs.len();
    let trs: Vec<Translator> = c.cfgs.iter().map(Translator::new).collect();
    // shared inputs, as in the multi-thread example
    let shared: Vec<Arc<(Vec<HandRange>, [Option<Card>; 5])>> = c.cfgs.iter().map(|cfg| Arc::new((cfg.ranges.iter().map(|r| r.to_espada()).collect(), e_board(&cfg.flop)))).collect();
    let run_round = |round: usize| -> Vec<Option<Seq>> {
        let barrier = Arc::new(Barrier::new(k));
        let (tx, rx) = mpsc::channel::<(usize, Vec<Showdown>)>();
        let mut handles = vec![];
        for i in 0..k {
            // odd evaluators are built here and moved; even ones are built inside the thread from
            // the shared ranges
            let prebuilt: Option<FlopExhaustiveEvaluator> = if i % 2 == 1 { Some(c.cfgs[i].evaluator()) } else { None };
            let sh = shared[i].clone();
            let scope = c.cfgs[i].scope;
            let b = barrier.clone();
            let tx = tx.clone();
            handles.push(std::thread::spawn(move || {
                let ev = match prebuilt {
                    Some(e) => e,
                    None => {
                        let mut e = FlopExhaustiveEvaluator::new(&sh.1, &sh.0);
                        if let Some((a, bb, cc, d)) = scope {
                            e.scope(a, bb, cc, d);
                        }
                        e
                    }
                };
                b.wait();
                let shows: Vec<Showdown> = ev.into_iter().collect();
                tx.send((i, shows)).unwrap();
            }));
        }
        drop(tx);
        let mut got: Vec<Option<Seq>> = vec![None; k];
        for (i, shows) in rx {
            got[i] = Some(fingerprint(&trs[i], &shows));
        }
        for h in handles {
            if h.join().is_err() {
                fail("thread-panic", format!("a draining thread panicked in round {}{}", round, if round == usize::MAX { " (the cold round: the first iterators of the process, started at once)" } else { "" }));
            }
        }
        got
    };
    // In half of the cases the very first iterators this process ever creates are the concurrent
    // ones (whatever the library initialises lazily is initialised by k threads at once); the
    // references are computed afterwards.
    let cold: Option<Vec<Option<Seq>>> = if (c.handovers.len() + k) % 2 == 0 { Some(run_round(usize::MAX)) } else { None };
    // reference: each evaluator alone, on this thread
    let solo: Vec<Seq> = c
        .cfgs
        .iter()
        .enumerate()
        .map(|(i, cfg)| {
            let shows: Vec<Showdown> = cfg.evaluator().into_iter().collect();
            fingerprint(&trs[i], &shows)
        })
        .collect();
    let compare = |got: &Vec<Option<Seq>>, what: &str| {
        for i in 0..k {
            match &got[i] {
                Some(g) if *g == solo[i] => {}
                Some(g) => fail("concurrent-differs", format!("evaluator {} of {} drained concurrently ({}) gives {} showdowns / a different sequence than alone ({} showdowns)", i, k, what, g.len(), solo[i].len())),
                None => fail("concurrent-missing", format!("evaluator {} produced no result", i)),
            }
        }
    };
    if let Some(g) = &cold {
        compare(g, "cold round: the first iterators of the process");
    }
    for round in 0..c.rounds.max(1) {
        let got = run_round(round as usize);
        compare(&got, &format!("round {}", round));
    }
    // showdowns shared between threads: the collected showdowns of each evaluator are read
    // (board, players, hands, winner flags, winner_len, probability) by several threads at the
    // same time through one Arc; every reader must see what the producing thread saw
    for i in 0..k.min(4) {
        let shows: Arc<Vec<Showdown>> = Arc::new(c.cfgs[i].evaluator().into_iter().collect());
        let readers = 4;
        let barrier = Arc::new(Barrier::new(readers));
        let mut hs = vec![];
        for _ in 0..readers {
            let (sh, b) = (shows.clone(), barrier.clone());
            let cfg = c.cfgs[i].clone();
            hs.push(std::thread::spawn(move || {
                let tr = Translator::new(&cfg);
                b.wait();
                fingerprint(&tr, &sh)
            }));
        }
        for (r, h) in hs.into_iter().enumerate() {
            match h.join() {
                Ok(g) => {
                    if g != solo[i] {
                        let d = g.iter().zip(solo[i].iter()).position(|(a, b)| a != b).unwrap_or(g.len().min(solo[i].len()));
                        fail("shared-showdown-differs", format!("showdowns of evaluator {} read concurrently by {} threads through one Arc: reader {} sees something different from the single-threaded run at showdown {} of {}", i, readers, r, d, solo[i].len()));
                    }
                }
                Err(_) => fail("thread-panic", "a reader of shared showdowns panicked".into()),
            }
        }
    }
    // hand-over: advance on thread A, send the iterator to thread B.  Thread B has created its own
    // iterator first (same creation ordinal on its thread), advanced it by the same number of
    // steps, and then alternates next() calls between the received iterator and its own one, so
    // that the two are at the same position in adjacent calls.  Variant 0: B's own evaluator has
    // the same configuration; variant 1: the next configuration of the case.
    for (hn, (e, steps)) in c.handovers.iter().enumerate() {
        let i = *e as usize % k;
        let j = if hn % 2 == 0 { i } else { (i + 1) % k };
        let cfg_a = c.cfgs[i].clone();
        let cfg_b = c.cfgs[j].clone();
        let steps = *steps as usize;
        let (tx, rx) = mpsc::channel();
        let a = std::thread::spawn(move || {
            let mut it = cfg_a.evaluator().into_iter();
            let mut first: Vec<Showdown> = vec![];
            for _ in 0..steps {
                match it.next() {
                    Some(s) => first.push(s),
                    None => break,
                }
            }
            tx.send((it, first)).unwrap();
        });
        let b = std::thread::spawn(move || {
            let mut own = cfg_b.evaluator().into_iter();
            let mut own_out: Vec<Showdown> = vec![];
            let mut own_done = false;
            for _ in 0..steps {
                match own.next() {
                    Some(s) => own_out.push(s),
                    None => {
                        own_done = true;
                        break;
                    }
                }
            }
            let (it, mut got): (_, Vec<Showdown>) = rx.recv().unwrap();
            let mut it: <FlopExhaustiveEvaluator as IntoIterator>::IntoIter = it;
            let mut got_done = false;
            while !(got_done && own_done) {
                if !got_done {
                    match it.next() {
                        Some(s) => got.push(s),
                        None => got_done = true,
                    }
                }
                if !own_done {
                    match own.next() {
                        Some(s) => own_out.push(s),
                        None => own_done = true,
                    }
                }
            }
            (got, own_out)
        });
        if a.join().is_err() {
            fail("thread-panic", "hand-over source thread panicked".into());
        }
        match b.join() {
            Ok((all, own)) => {
                let g = fingerprint(&trs[i], &all);
                if g != solo[i] {
                    fail("handover-differs", format!("evaluator {} advanced {} steps on one thread and continued on another thread (interleaved there with that thread's own evaluator {}) gives {} showdowns / a different sequence than alone ({})", i, steps, j, g.len(), solo[i].len()));
                }
                let o = fingerprint(&trs[j], &own);
                if o != solo[j] {
                    fail("handover-disturbs-host", format!("evaluator {} created and stepped on a thread that then received evaluator {} from another thread gives {} showdowns / a different sequence than alone ({})", j, i, o.len(), solo[j].len()));
                }
            }
            Err(_) => fail("thread-panic", "hand-over target thread panicked".into()),
        }
    }
    println!("OK");
}
