use espada_verif::props;
use espada_verif::runner::{install_panic_hook, Tier};

fn usage() -> ! {
    eprintln!("usage: vcheck <ID> <quick|thorough> | vcheck <ID> --replay <file>");
    std::process::exit(2)
}

fn main() {
    let args: Vec<String> = std::env::args().collect();
    if args.len() < 3 {
        usage();
    }
    install_panic_hook();
    let prop = args[1].to_uppercase();
    let guarded = |tier: Tier| -> i32 {
        espada_verif::runner::start_watchdog(&prop, tier);
        match std::panic::catch_unwind(|| props::run(&prop, tier)) {
            Ok(c) => c,
            Err(_) => {
                eprintln!("{}: the harness itself panicked (see message above): inconclusive", prop);
                2
            }
        }
    };
    let code = match args[2].as_str() {
        "quick" => guarded(Tier::Quick),
        "thorough" => guarded(Tier::Thorough),
        "--replay" => {
            if args.len() < 4 {
                usage();
            }
            props::replay(&prop, &args[3])
        }
        _ => usage(),
    };
    std::process::exit(code)
}
