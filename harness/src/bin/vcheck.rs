use espada_verif::props;
use espada_verif::runner::{install_panic_hook, Tier};

fn usage() -> ! {
    eprintln!("usage: vcheck <ID> <quick|thorough> | vcheck <ID> --replay <file>");
    std::process::exit(2)
}

fn main() {
    let args: Vec<String> = std::env::args().collect();
    if args.len() < 3 {
        usage();
    }
    install_panic_hook();
    let prop = args[1].to_uppercase();
    let code = match args[2].as_str() {
        "quick" => props::run(&prop, Tier::Quick),
        "thorough" => props::run(&prop, Tier::Thorough),
        "--replay" => {
            if args.len() < 4 {
                usage();
            }
            props::replay(&prop, &args[3])
        }
        _ => usage(),
    };
    std::process::exit(code)
}
