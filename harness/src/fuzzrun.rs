//! Thorough-tier libFuzzer campaigns: build the cargo-fuzz target, run J processes with pinned
//! seeds on a fresh working corpus copied from corpus-seed/, then confirm every crash artifact by
//! replaying the bytes through the same oracle in this (stable) build before reporting it.

use crate::fuzzdec::run_target;
use crate::runner::*;
use serde_json::json;
use std::collections::BTreeMap;
use std::path::{Path, PathBuf};
use std::process::{Command, Stdio};
use std::time::Instant;

fn harness_dir() -> PathBuf {
    PathBuf::from(format!("{}/harness", verif_dir()))
}

fn fuzz_bin(target: &str) -> PathBuf {
    harness_dir().join(format!("fuzz/target/x86_64-unknown-linux-gnu/release/{}", target))
}

pub fn build_target(target: &str) -> Result<(), String> {
    let out = Command::new("cargo")
        .args(["+nightly", "fuzz", "build", "--sanitizer", "none", "-O", target])
        .current_dir(harness_dir())
        .env("CARGO_NET_OFFLINE", "true")
        .stdin(Stdio::null())
        .output()
        .map_err(|e| format!("cannot start cargo fuzz: {}", e))?;
    if !out.status.success() || !fuzz_bin(target).exists() {
        let e = String::from_utf8_lossy(&out.stderr);
        let tail: Vec<&str> = e.lines().rev().take(12).collect();
        return Err(tail.into_iter().rev().collect::<Vec<_>>().join(" | "));
    }
    Ok(())
}

fn copy_dir(from: &Path, to: &Path) -> usize {
    let _ = std::fs::create_dir_all(to);
    let mut n = 0;
    if let Ok(rd) = std::fs::read_dir(from) {
        for e in rd.flatten() {
            if e.path().is_file() {
                let _ = std::fs::copy(e.path(), to.join(e.file_name()));
                n += 1;
            }
        }
    }
    n
}

/// Run the campaign as a stream of `ctx`.  `prop` failures become violations of this check,
/// failures of the target's other oracles are noted only (their own checks run the same target).
pub fn campaign(ctx: &mut Ctx, target: &str, runs_per_job: u64, jobs: usize, max_len: usize) {
    if ctx.failed() {
        return;
    }
    let t0 = Instant::now();
    let name = format!("libfuzzer_{}", target);
    if let Err(e) = build_target(target) {
        ctx.extra.insert(format!("{}_unavailable", name), json!(e));
        eprintln!("[{}] libFuzzer target {} could not be built; campaign skipped: {}", ctx.prop, target, e);
        return;
    }
    let work = harness_dir().join(format!("fuzz/work/{}-{}", ctx.prop, target));
    let _ = std::fs::remove_dir_all(&work);
    let seeds = harness_dir().join(format!("corpus-seed/{}", target));
    let mut children = vec![];
    for j in 0..jobs {
        let corpus = work.join(format!("corpus{}", j));
        let arts = work.join(format!("artifacts{}", j));
        copy_dir(&seeds, &corpus);
        let _ = std::fs::create_dir_all(&arts);
        // libFuzzer treats -seed=0 as "random": remap
        let seed = (mix64(ctx.seed ^ (j as u64) << 32 ^ hash_str(target)) % 0x7fff_fffe) + 1;
        // The job is started through a shell that forks once more: Linux carries the peak RSS of the
        // spawning process over fork+exec (getrusage ru_maxrss, which libFuzzer's -rss_limit_mb
        // reads), so after a memory-hungry stream of this check every job would stop at once with
        // a spurious "out-of-memory" on an innocent input.  The extra fork starts from the shell's
        // small address space and a fresh counter.
        let child = Command::new("/bin/sh")
            .arg("-c")
            .arg("\"$0\" \"$@\"; exit $?")
            .arg(fuzz_bin(target))
            .arg(&corpus)
            .arg(format!("-runs={}", runs_per_job))
            .arg(format!("-seed={}", seed))
            .arg("-len_control=0")
            .arg("-use_value_profile=1")
            .arg(format!("-max_len={}", max_len))
            .arg(format!("-artifact_prefix={}/", arts.display()))
            .arg("-print_final_stats=1")
            .arg("-timeout=60")
            .arg("-rss_limit_mb=4096")
            .current_dir(&work)
            .env("RUST_BACKTRACE", "0")
            .stdin(Stdio::null())
            .stdout(Stdio::null())
            .stderr(Stdio::piped())
            .spawn();
        if let Ok(c) = child {
            children.push((j, c, corpus, arts));
        }
    }
    let mut execs = 0u64;
    let mut corpus_files = 0u64;
    let mut artifacts: Vec<PathBuf> = vec![];
    let mut oracle_lines: Vec<String> = vec![];
    let mut ended_early = 0u64;
    let mut early_tails: Vec<String> = vec![];
    for (j, c, corpus, arts) in children {
        if let Ok(out) = c.wait_with_output() {
            let e = String::from_utf8_lossy(&out.stderr);
            let mut done = false;
            for l in e.lines() {
                if let Some(v) = l.strip_prefix("stat::number_of_executed_units:") {
                    execs += v.trim().parse::<u64>().unwrap_or(0);
                }
                if l.starts_with("ORACLE-FAILURE") {
                    oracle_lines.push(l.chars().take(300).collect());
                }
                if l.starts_with("Done ") {
                    done = true;
                }
            }
            if !done {
                // the job stopped before its run count: keep why (crash, timeout, out of memory, signal)
                ended_early += 1;
                let tail: Vec<&str> = e.lines().filter(|l| !l.starts_with('#') && !l.starts_with("stat::") && !l.starts_with('"')).rev().take(8).collect();
                early_tails.push(format!("job {} status {:?}: {}", j, out.status.code(), tail.into_iter().rev().collect::<Vec<_>>().join(" | ").chars().take(700).collect::<String>()));
            }
        }
        corpus_files += std::fs::read_dir(&corpus).map(|d| d.count() as u64).unwrap_or(0);
        if let Ok(rd) = std::fs::read_dir(&arts) {
            for a in rd.flatten() {
                artifacts.push(a.path());
            }
        }
    }
    artifacts.sort();
    // confirm artifacts in this build
    let mut failure = None;
    let mut unconfirmed = 0u64;
    let mut other_props: Vec<String> = vec![];
    let mut kinds: BTreeMap<String, u64> = BTreeMap::new();
    for a in &artifacts {
        let Ok(bytes) = std::fs::read(a) else { continue };
        let r = catch(|| run_target(target, &bytes));
        match r {
            Ok(Ok(())) => {
                // not a failure of any oracle in the stable build (a timeout, an out-of-memory stop,
                // a slow-unit note, ...): inconclusive, never a violation; kept for inspection
                unconfirmed += 1;
                let keep = format!("{}/fuzz-unconfirmed", verif_dir());
                let _ = std::fs::create_dir_all(&keep);
                if let Some(n) = a.file_name().and_then(|n| n.to_str()) {
                    let _ = std::fs::write(format!("{}/{}-{}-{}", keep, ctx.prop, target, n), &bytes);
                }
                let kind = a.file_name().and_then(|n| n.to_str()).and_then(|n| n.split('-').next()).unwrap_or("other").to_string();
                *kinds.entry(format!("unconfirmed_{}", kind.replace("slow", "slow_unit"))).or_insert(0u64) += 1;
            }
            Ok(Err((p, f))) => {
                if p == ctx.prop {
                    if failure.is_none() {
                        failure = Some((bytes.clone(), f));
                    }
                } else {
                    other_props.push(format!("{}: {} ({})", p, f.sig, a.display()));
                }
            }
            Err(p) => {
                // the oracle itself panicked outside its guards: treat as a harness problem
                ctx.unhealthy.push(format!("replaying fuzz artifact {} panicked in the harness: {}", a.display(), p));
            }
        }
    }
    let mut classes = BTreeMap::new();
    classes.insert("jobs".to_string(), jobs as u64);
    classes.insert("final_corpus_files".to_string(), corpus_files);
    classes.insert("crash_artifacts".to_string(), artifacts.len() as u64);
    classes.insert("artifacts_not_reproduced_in_stable_build".to_string(), unconfirmed);
    classes.insert("jobs_ended_before_run_count".to_string(), ended_early);
    for (k, v) in kinds {
        classes.insert(k, v);
    }
    if !early_tails.is_empty() {
        eprintln!("[{}] libFuzzer {}: {} of {} jobs ended before their run count (inconclusive, not a violation unless an artifact is confirmed below)", ctx.prop, target, ended_early, jobs);
        for t in early_tails.iter().take(3) {
            eprintln!("    {}", t);
        }
        ctx.extra.insert(format!("{}_jobs_ended_early", name), json!(early_tails.iter().take(4).collect::<Vec<_>>()));
    }
    if !other_props.is_empty() {
        ctx.extra.insert(format!("{}_failures_of_other_properties", name), json!(other_props));
    }
    if !oracle_lines.is_empty() {
        ctx.extra.insert(format!("{}_oracle_lines", name), json!(oracle_lines.iter().take(5).collect::<Vec<_>>()));
    }
    let fail = failure.map(|(bytes, f)| {
        // raw bytes are the replay unit
        let h = hash_str(&format!("{:?}", bytes));
        let dir = format!("{}/replays", verif_dir());
        let _ = std::fs::create_dir_all(&dir);
        let path = format!("{}/{}-{}-{:012x}.bin", dir, ctx.prop, target, h & 0xffff_ffff_ffff);
        let _ = std::fs::write(&path, &bytes);
        (json!({"fuzz_target": target, "bytes_file": path, "bytes_lossy": String::from_utf8_lossy(&bytes).chars().take(200).collect::<String>()}), f)
    });
    let samples: Vec<serde_json::Value> = std::fs::read_dir(work.join("corpus0"))
        .map(|d| d.flatten().take(4).filter_map(|e| std::fs::read(e.path()).ok()).map(|b| json!(String::from_utf8_lossy(&b).chars().take(80).collect::<String>())).collect())
        .unwrap_or_default();
    ctx.record_stream(&name, "libfuzzer", execs, corpus_files, false, classes, samples, t0.elapsed().as_secs_f64(), fail);
    let _ = std::fs::remove_dir_all(&work);
}

/// `vcheck <ID> --replay <file.bin>`: file name is <ID>-<target>-<hash>.bin
pub fn replay_bytes(prop: &str, path: &str) -> i32 {
    let fname = Path::new(path).file_name().and_then(|s| s.to_str()).unwrap_or("");
    let target = crate::fuzzdec::TARGETS.iter().map(|t| t.0).find(|t| fname.contains(t));
    let Some(target) = target else {
        eprintln!("cannot tell the fuzz target from the file name {}", fname);
        return 2;
    };
    let Ok(bytes) = std::fs::read(path) else {
        eprintln!("cannot read {}", path);
        return 2;
    };
    match catch(|| run_target(target, &bytes)) {
        Ok(Ok(())) => {
            println!("replay {}: property {} holds on this input", path, prop);
            0
        }
        Ok(Err((p, f))) => {
            println!("VIOLATION property={} replay={}", p, path);
            println!("  signature={}\n  {}", f.sig, f.what);
            1
        }
        Err(p) => {
            eprintln!("harness panic while replaying: {}", p);
            2
        }
    }
}
