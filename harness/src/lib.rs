//! espada_verif — property-based testing / fuzzing machinery for axross/espada (C01-C17).
//! See /verif/DESIGN.md.

pub mod cards;
pub mod hand5;
pub mod evalmodel;
pub mod notation;
pub mod runner;
pub mod props;
pub mod fuzzdec;
pub mod fuzzrun;
