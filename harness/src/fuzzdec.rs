//! Byte decoders and oracles of the libFuzzer targets, kept in the library so that the stable
//! `vcheck --replay-bytes <target> <file>` runs exactly what the fuzz target ran.

use crate::notation::{Tok, WTok};
use crate::props::c05::{check_list, token_from, ListCase};
use crate::props::c06::{build_range, check_range, RangeCase};
use crate::props::c09::{check, Mode};
use crate::props::{c12, c17};
use crate::runner::Fail;
use arbitrary::Unstructured;

pub const TARGETS: &[(&str, &[&str])] = &[("fz_parse", &["C09", "C10"]), ("fz_notation", &["C05"]), ("fz_range", &["C06", "C12", "C17"]), ("fz_eval", &["C02", "C04"])];

/// bytes -> a small evaluator configuration built from range "building blocks" (explicit combos,
/// blocker ranges around one card, card pools, sized ranges around powers of two, clones of an
/// earlier seat), optional scope() calls and calls after exhaustion.  Coverage guidance (with
/// value profiling) can then discover size thresholds and shape conditions inside the evaluator.
pub fn decode_eval(data: &[u8]) -> arbitrary::Result<crate::props::c04::Case> {
    use crate::cards::{all_combos, norm_pair};
    use crate::evalmodel::*;
    let mut u = Unstructured::new(data);
    let a = u.int_in_range(0..=51u8)?;
    let mut b = u.int_in_range(0..=50u8)?;
    if b >= a {
        b += 1;
    }
    let mut c = u.int_in_range(0..=49u8)?;
    for x in [a.min(b), a.max(b)] {
        if c >= x {
            c += 1;
        }
    }
    let flop = [a, b, c];
    let n = u.int_in_range(0..=4usize)?;
    let all = all_combos();
    let mut ranges: Vec<RangeSpec> = vec![];
    const SIZES: [usize; 16] = [1, 2, 3, 7, 8, 9, 15, 16, 17, 31, 32, 33, 63, 64, 65, 128];
    for _ in 0..n {
        let kind = u.int_in_range(0..=4u8)?;
        let wmode = u.int_in_range(0..=3u8)?;
        let mut r = match kind {
            0 => {
                let k = u.int_in_range(1..=6usize)?;
                let mut m = std::collections::BTreeMap::new();
                for _ in 0..k {
                    let p = all[u.int_in_range(0..=1325usize)?];
                    m.insert(p, 1.0f32);
                }
                RangeSpec { combos: m.into_iter().map(|(p, w)| (p.0, p.1, w)).collect() }
            }
            1 => holding_range(u.int_in_range(0..=51u8)?, u.int_in_range(1..=51usize)?, u.arbitrary::<u16>()? as u64, false),
            2 => {
                let m = u.int_in_range(4..=9usize)?;
                let mut cards: Vec<u8> = vec![];
                for _ in 0..m {
                    let x = u.int_in_range(0..=51u8)?;
                    if !cards.contains(&x) {
                        cards.push(x);
                    }
                }
                let mask: u64 = u.arbitrary()?;
                let mut combos = vec![];
                let mut bit = 0;
                for i in 0..cards.len() {
                    for j in (i + 1)..cards.len() {
                        if mask >> bit & 1 == 1 {
                            let p = norm_pair(cards[i], cards[j]);
                            combos.push((p.0, p.1, 1.0f32));
                        }
                        bit += 1;
                    }
                }
                if combos.is_empty() && cards.len() >= 2 {
                    let p = norm_pair(cards[0], cards[1]);
                    combos.push((p.0, p.1, 1.0));
                }
                combos.sort_by_key(|c| (c.0, c.1));
                combos.dedup_by_key(|c| (c.0, c.1));
                RangeSpec { combos }
            }
            3 => {
                let size = if u.arbitrary::<bool>()? { SIZES[u.int_in_range(0..=15usize)?] } else { u.int_in_range(1..=300usize)? };
                sized_range(size, u.arbitrary::<u16>()? as u64, false)
            }
            _ => {
                if ranges.is_empty() {
                    sized_range(2, 7, false)
                } else {
                    ranges[u.int_in_range(0..=ranges.len() - 1)?].clone()
                }
            }
        };
        if r.combos.is_empty() {
            r = sized_range(1, 3, false);
        }
        for (i, cb) in r.combos.iter_mut().enumerate() {
            cb.2 = match wmode {
                0 => 1.0,
                1 => [1.0, 0.5, 0.25, 0.0][i % 4],
                2 => 0.5,
                _ => [0.75, 1.0][i % 2],
            };
        }
        ranges.push(r);
    }
    let mut cfg = Config { flop, ranges, scope: None };
    // cost: the window actually walked is short (<= 48 positions), the product of the range sizes
    // is cut to 600
    fit_budget(&mut cfg, 1176 * 600);
    let ns = u.int_in_range(1..=3usize)?;
    let mut scopes = vec![];
    for _ in 0..ns {
        let x = u.int_in_range(0..=1176u16)?;
        let d = u.int_in_range(0..=48u16)?;
        scopes.push((x, (x + d).min(1176)));
    }
    let extra_next = match u.int_in_range(0..=9u8)? {
        0..=6 => u.int_in_range(0..=3u32)?,
        7 | 8 => u.int_in_range(4..=300u32)?,
        _ => u.int_in_range(300..=5000u32)?,
    };
    Ok(crate::props::c04::Case { cfg, scopes, extra_next })
}

fn lit(u: &mut Unstructured) -> arbitrary::Result<Option<String>> {
    Ok(match u.int_in_range(0..=7u8)? {
        0 | 1 | 2 => None,
        3 => Some("1".into()),
        4 => Some("0".into()),
        5 => Some("1.0".into()),
        _ => {
            let n = u.int_in_range(1..=12usize)?;
            let mut s = String::from("0.");
            for _ in 0..n {
                s.push((b'0' + u.int_in_range(0..=9u8)?) as char);
            }
            Some(s)
        }
    })
}

pub fn decode_list(data: &[u8]) -> arbitrary::Result<ListCase> {
    let mut u = Unstructured::new(data);
    let np = u.int_in_range(2..=13usize)?;
    let mut palette: Vec<u8> = vec![];
    for _ in 0..np {
        let r = u.int_in_range(0..=12u8)?;
        if !palette.contains(&r) {
            palette.push(r);
        }
    }
    let n = u.int_in_range(0..=16usize)?;
    let mut toks = vec![];
    let mut spaces = vec![];
    for _ in 0..n {
        let shape = u.int_in_range(0..=6u8)?;
        let (a, b, c, s1, s2): (u8, u8, u8, u8, u8) = (u.arbitrary()?, u.arbitrary()?, u.arbitrary()?, u.arbitrary()?, u.arbitrary()?);
        let suited: bool = u.arbitrary()?;
        let tok: Tok = token_from(&palette, shape, a, b, c, s1, s2, suited);
        toks.push(WTok { tok, weight: lit(&mut u)? });
        spaces.push(u.int_in_range(0..=3u8)?);
    }
    Ok(ListCase { toks, spaces })
}

fn weight(u: &mut Unstructured) -> arbitrary::Result<f32> {
    Ok(match u.int_in_range(0..=6u8)? {
        0 | 1 => 1.0,
        2 => 0.5,
        3 => 0.0,
        4 => 0.25,
        _ => f32::from_bits(u.int_in_range(0..=0x3f80_0000u32)?),
    })
}

pub fn decode_range(data: &[u8]) -> arbitrary::Result<(RangeCase, u64)> {
    let mut u = Unstructured::new(data);
    let mask: u32 = u.arbitrary::<u32>()? & u.arbitrary::<u32>()? & 0x1ff_ffff;
    let w = [weight(&mut u)?, weight(&mut u)?, weight(&mut u)?];
    let np = u.int_in_range(0..=6usize)?;
    let mut partials = vec![];
    for _ in 0..np {
        partials.push((u.int_in_range(0..=168u8)?, u.arbitrary::<u32>()?));
    }
    let seed: u64 = u.arbitrary()?;
    let mut cells = vec![0u8; 169];
    for c in cells.iter_mut() {
        *c = match u.int_in_range(0..=13u8).unwrap_or(0) {
            0..=4 => 0,
            5..=9 => 1,
            10..=12 => 2,
            _ => 3,
        };
    }
    Ok((RangeCase::from_map(&build_range(mask, &cells, w, &partials, 6)), seed))
}

/// Run one fuzz input through the target's oracle.  Err((property, failure)) on a violation.
pub fn run_target(target: &str, data: &[u8]) -> Result<(), (&'static str, Fail)> {
    match target {
        "fz_parse" => {
            let s = String::from_utf8_lossy(data).to_string();
            check(Mode::Total, &s).map_err(|f| ("C09", f))?;
            check(Mode::Content, &s).map_err(|f| ("C10", f))?;
            Ok(())
        }
        "fz_notation" => {
            let Ok(case) = decode_list(data) else { return Ok(()) };
            check_list(&case).map(|_| ()).map_err(|f| ("C05", f))
        }
        "fz_range" => {
            let Ok((range, seed)) = decode_range(data) else { return Ok(()) };
            if !range.valid() {
                return Ok(());
            }
            check_range(&range).map_err(|f| ("C06", f))?;
            c12::check_range(&range).map_err(|f| ("C12", f))?;
            c17::check(&c17::Case { range, seed }).map_err(|f| ("C17", f))?;
            Ok(())
        }
        "fz_eval" => {
            let Ok(case) = decode_eval(data) else { return Ok(()) };
            if !case.cfg.valid() {
                return Ok(());
            }
            if case.cfg.ranges.iter().any(|r| r.combos.is_empty()) || case.cfg.ranges.is_empty() {
                return Ok(());
            }
            // the scoped run against the enumeration model restricted to the window: deals,
            // probabilities (C02) and window/exhaustion behaviour (C04) at once
            crate::props::c04::check_window_model(&case).map(|_| ()).map_err(|f| (if f.sig.starts_with("scope") || f.sig == "not-exhausted" { "C04" } else { "C02" }, f))
        }
        _ => Ok(()),
    }
}
