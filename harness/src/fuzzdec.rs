//! Byte decoders and oracles of the libFuzzer targets, kept in the library so that the stable
//! `vcheck --replay-bytes <target> <file>` runs exactly what the fuzz target ran.

use crate::notation::{Tok, WTok};
use crate::props::c05::{check_list, token_from, ListCase};
use crate::props::c06::{build_range, check_range, RangeCase};
use crate::props::c09::{check, Mode};
use crate::props::{c12, c17};
use crate::runner::Fail;
use arbitrary::Unstructured;

pub const TARGETS: &[(&str, &[&str])] = &[("fz_parse", &["C09", "C10"]), ("fz_notation", &["C05"]), ("fz_range", &["C06", "C12", "C17"])];

fn lit(u: &mut Unstructured) -> arbitrary::Result<Option<String>> {
    Ok(match u.int_in_range(0..=7u8)? {
        0 | 1 | 2 => None,
        3 => Some("1".into()),
        4 => Some("0".into()),
        5 => Some("1.0".into()),
        _ => {
            let n = u.int_in_range(1..=12usize)?;
            let mut s = String::from("0.");
            for _ in 0..n {
                s.push((b'0' + u.int_in_range(0..=9u8)?) as char);
            }
            Some(s)
        }
    })
}

pub fn decode_list(data: &[u8]) -> arbitrary::Result<ListCase> {
    let mut u = Unstructured::new(data);
    let np = u.int_in_range(2..=13usize)?;
    let mut palette: Vec<u8> = vec![];
    for _ in 0..np {
        let r = u.int_in_range(0..=12u8)?;
        if !palette.contains(&r) {
            palette.push(r);
        }
    }
    let n = u.int_in_range(0..=16usize)?;
    let mut toks = vec![];
    let mut spaces = vec![];
    for _ in 0..n {
        let shape = u.int_in_range(0..=6u8)?;
        let (a, b, c, s1, s2): (u8, u8, u8, u8, u8) = (u.arbitrary()?, u.arbitrary()?, u.arbitrary()?, u.arbitrary()?, u.arbitrary()?);
        let suited: bool = u.arbitrary()?;
        let tok: Tok = token_from(&palette, shape, a, b, c, s1, s2, suited);
        toks.push(WTok { tok, weight: lit(&mut u)? });
        spaces.push(u.int_in_range(0..=3u8)?);
    }
    Ok(ListCase { toks, spaces })
}

fn weight(u: &mut Unstructured) -> arbitrary::Result<f32> {
    Ok(match u.int_in_range(0..=6u8)? {
        0 | 1 => 1.0,
        2 => 0.5,
        3 => 0.0,
        4 => 0.25,
        _ => f32::from_bits(u.int_in_range(0..=0x3f80_0000u32)?),
    })
}

pub fn decode_range(data: &[u8]) -> arbitrary::Result<(RangeCase, u64)> {
    let mut u = Unstructured::new(data);
    let mask: u32 = u.arbitrary::<u32>()? & u.arbitrary::<u32>()? & 0x1ff_ffff;
    let w = [weight(&mut u)?, weight(&mut u)?, weight(&mut u)?];
    let np = u.int_in_range(0..=6usize)?;
    let mut partials = vec![];
    for _ in 0..np {
        partials.push((u.int_in_range(0..=168u8)?, u.arbitrary::<u32>()?));
    }
    let seed: u64 = u.arbitrary()?;
    let mut cells = vec![0u8; 169];
    for c in cells.iter_mut() {
        *c = match u.int_in_range(0..=13u8).unwrap_or(0) {
            0..=4 => 0,
            5..=9 => 1,
            10..=12 => 2,
            _ => 3,
        };
    }
    Ok((RangeCase::from_map(&build_range(mask, &cells, w, &partials, 6)), seed))
}

/// Run one fuzz input through the target's oracle.  Err((property, failure)) on a violation.
pub fn run_target(target: &str, data: &[u8]) -> Result<(), (&'static str, Fail)> {
    match target {
        "fz_parse" => {
            let s = String::from_utf8_lossy(data).to_string();
            check(Mode::Total, &s).map_err(|f| ("C09", f))?;
            check(Mode::Content, &s).map_err(|f| ("C10", f))?;
            Ok(())
        }
        "fz_notation" => {
            let Ok(case) = decode_list(data) else { return Ok(()) };
            check_list(&case).map(|_| ()).map_err(|f| ("C05", f))
        }
        "fz_range" => {
            let Ok((range, seed)) = decode_range(data) else { return Ok(()) };
            if !range.valid() {
                return Ok(());
            }
            check_range(&range).map_err(|f| ("C06", f))?;
            c12::check_range(&range).map_err(|f| ("C12", f))?;
            c17::check(&c17::Case { range, seed }).map_err(|f| ("C17", f))?;
            Ok(())
        }
        _ => Ok(()),
    }
}
