//! Enumeration model for FlopExhaustiveEvaluator, showdown fingerprints, and the shared
//! generators of flops / ranges / configurations.

use crate::cards::*;
use crate::runner::{Fail, mix64};
use espada::evaluator::{FlopExhaustiveEvaluator, Showdown};
use espada::hand_range::HandRange;
use fxhash::FxHashMap;
use proptest::prelude::*;
use serde::{Deserialize, Serialize};

/// One player's range as data: distinct combos (lo id, hi id, weight), lo < hi.
#[derive(Clone, Debug, Serialize, Deserialize, PartialEq)]
pub struct RangeSpec {
    pub combos: Vec<(u8, u8, f32)>,
}

impl RangeSpec {
    pub fn to_espada(&self) -> HandRange {
        self.combos.iter().map(|(a, b, w)| (e_pair(*a, *b), *w)).collect()
    }
    pub fn index(&self) -> FxHashMap<(u8, u8), u16> {
        self.combos.iter().enumerate().map(|(i, c)| ((c.0, c.1), i as u16)).collect()
    }
    pub fn valid(&self) -> bool {
        let mut seen = std::collections::HashSet::new();
        self.combos.iter().all(|(a, b, w)| a < b && *b < 52 && w.is_finite() && *w >= 0.0 && *w <= 1.0 && seen.insert((*a, *b)))
    }
    pub fn brief(&self) -> String {
        if self.combos.len() <= 8 {
            self.combos.iter().map(|(a, b, w)| if *w == 1.0 { pname((*a, *b)) } else { format!("{}:{}", pname((*a, *b)), w) }).collect::<Vec<_>>().join(",")
        } else {
            format!("{} combos [{},{},...,{}]", self.combos.len(), pname((self.combos[0].0, self.combos[0].1)), pname((self.combos[1].0, self.combos[1].1)), pname((self.combos[self.combos.len() - 1].0, self.combos[self.combos.len() - 1].1)))
        }
    }
}

#[derive(Clone, Debug, Serialize, Deserialize, PartialEq)]
pub struct Config {
    pub flop: [u8; 3],
    pub ranges: Vec<RangeSpec>,
    /// (turn_from, river_from, turn_to, river_to)
    pub scope: Option<(u8, u8, u8, u8)>,
}

impl Config {
    pub fn valid(&self) -> bool {
        let f = self.flop;
        f[0] != f[1] && f[0] != f[2] && f[1] != f[2] && f.iter().all(|c| *c < 52) && self.ranges.iter().all(|r| r.valid())
    }
    pub fn evaluator(&self) -> FlopExhaustiveEvaluator {
        let players: Vec<HandRange> = self.ranges.iter().map(|r| r.to_espada()).collect();
        let mut e = FlopExhaustiveEvaluator::new(&e_board(&self.flop), &players);
        if let Some((a, b, c, d)) = self.scope {
            e.scope(a, b, c, d);
        }
        e
    }
    /// number of (turn,river,combo..) slots the odometer walks over the full run
    pub fn slots(&self) -> u128 {
        self.ranges.iter().fold(1176u128, |a, r| a.saturating_mul(r.combos.len().max(1) as u128))
    }
    pub fn brief(&self) -> serde_json::Value {
        serde_json::json!({
            "flop": cnames(&self.flop),
            "ranges": self.ranges.iter().map(|r| r.brief()).collect::<Vec<_>>(),
            "scope": self.scope,
        })
    }
}

/// Key of one deal: (t, r, combo index per player) packed into 128 bits, t < r deck positions.
/// Player i takes as many bits as its range size needs (none for a single-combo range), so that
/// tables of many players with tiny ranges fit as well as a few players with full ranges.
pub type DealKey = u128;
pub fn key_widths(cfg: &Config) -> Vec<u8> {
    let w: Vec<u8> = cfg.ranges.iter().map(|r| (usize::BITS - r.combos.len().saturating_sub(1).leading_zeros()) as u8).collect();
    assert!(12 + w.iter().map(|x| *x as u32).sum::<u32>() <= 128, "harness: deal key does not fit into 128 bits for range sizes {:?}", cfg.ranges.iter().map(|r| r.combos.len()).collect::<Vec<_>>());
    w
}
#[inline]
pub fn deal_key(t: u8, r: u8, combos: &[u16], widths: &[u8]) -> DealKey {
    let mut k: u128 = (t as u128) << 6 | r as u128;
    for (c, w) in combos.iter().zip(widths.iter()) {
        k = k << *w | *c as u128;
    }
    k
}
pub fn unpack_key(k: DealKey, widths: &[u8]) -> (u8, u8, Vec<u16>) {
    let mut k = k;
    let n = widths.len();
    let mut cs = vec![0u16; n];
    for i in (0..n).rev() {
        cs[i] = (k & ((1u128 << widths[i]) - 1)) as u16;
        k >>= widths[i];
    }
    ((k >> 6) as u8 & 0x3f, (k & 0x3f) as u8, cs)
}

pub struct Deal {
    pub key: DealKey,
    pub prob: f64,
}

/// Reference enumeration: every (t<r) x one combo per player with all 5+2n cards distinct, for
/// positions from <= (t,r) < to (lexicographic).  Written from the statement, not from the code.
pub fn model_deals(cfg: &Config, from: (u8, u8), to: (u8, u8), out: &mut Vec<Deal>, blocked_by_players: &mut u64) {
    let deck = deck49(&cfg.flop);
    let n = cfg.ranges.len();
    let widths = key_widths(cfg);
    let mut chosen = vec![0u16; n];
    for t in 0..48u8 {
        for r in (t + 1)..49u8 {
            if (t, r) < from || (t, r) >= to {
                continue;
            }
            let (ct, cr) = (deck[t as usize], deck[r as usize]);
            // per player: combos not touching flop / turn / river
            let live: Vec<Vec<u16>> = cfg
                .ranges
                .iter()
                .map(|rg| {
                    rg.combos
                        .iter()
                        .enumerate()
                        .filter(|(_, c)| {
                            let bad = |x: u8| x == ct || x == cr || cfg.flop.contains(&x);
                            !bad(c.0) && !bad(c.1)
                        })
                        .map(|(i, _)| i as u16)
                        .collect()
                })
                .collect();
            if n == 0 {
                out.push(Deal { key: deal_key(t, r, &[], &widths), prob: 1.0 });
                continue;
            }
            if live.iter().any(|l| l.is_empty()) {
                continue;
            }
            // odometer over live combos with pairwise distinctness
            fn rec(cfg: &Config, widths: &[u8], live: &[Vec<u16>], p: usize, used: u64, prob: f64, chosen: &mut Vec<u16>, t: u8, r: u8, out: &mut Vec<Deal>, blocked: &mut u64) {
                if p == live.len() {
                    out.push(Deal { key: deal_key(t, r, chosen, widths), prob });
                    return;
                }
                for &ci in &live[p] {
                    let c = cfg.ranges[p].combos[ci as usize];
                    let m = 1u64 << c.0 | 1u64 << c.1;
                    if used & m != 0 {
                        // candidate deal excluded because two players collide; count leaf deals
                        let rest: u64 = live[p + 1..].iter().map(|l| l.len() as u64).product();
                        *blocked += rest;
                        continue;
                    }
                    chosen[p] = ci;
                    rec(cfg, widths, live, p + 1, used | m, prob * c.2 as f64, chosen, t, r, out, blocked);
                }
            }
            rec(cfg, &widths, &live, 0, 0, 1.0, &mut chosen, t, r, out, blocked_by_players);
        }
    }
}

/// What espada reported for one showdown, translated into model terms.
#[derive(Clone, Debug, PartialEq)]
pub struct ShRec {
    pub t: u8,
    pub r: u8,
    pub combos: Vec<u16>,
    pub prob_bits: u32,
    pub idx: Vec<u16>,
    pub wins: u32,
    pub winner_len: u8,
}
impl ShRec {
    pub fn key(&self, widths: &[u8]) -> DealKey {
        deal_key(self.t.min(self.r), self.t.max(self.r), &self.combos, widths)
    }
}

pub struct Translator {
    pub deck: Vec<Cid>,
    pos: [u8; 52],
    idx: Vec<FxHashMap<(u8, u8), u16>>,
    flop: [u8; 3],
}

impl Translator {
    pub fn new(cfg: &Config) -> Self {
        let deck = deck49(&cfg.flop);
        let mut pos = [255u8; 52];
        for (i, c) in deck.iter().enumerate() {
            pos[*c as usize] = i as u8;
        }
        Translator { deck, pos, idx: cfg.ranges.iter().map(|r| r.index()).collect(), flop: cfg.flop }
    }

    /// Translate and structurally check one showdown (board layout, hole cards, distinctness).
    pub fn record(&self, s: &Showdown) -> Result<ShRec, Fail> {
        let b = s.board();
        let bid: Vec<u8> = b.iter().map(cid_of).collect();
        if bid[0..3] != self.flop {
            return Err(Fail::new("showdown-flop", format!("showdown board {} does not start with the flop {} in the given order", cnames(&bid), cnames(&self.flop))));
        }
        let (t, r) = (self.pos[bid[3] as usize], self.pos[bid[4] as usize]);
        if t == 255 || r == 255 || t == r {
            return Err(Fail::new("showdown-turn-river", format!("showdown board {}: turn/river are not two different unseen cards", cnames(&bid))));
        }
        let ps = s.players();
        if ps.len() != self.idx.len() {
            return Err(Fail::new("showdown-player-count", format!("showdown has {} players, {} ranges were given", ps.len(), self.idx.len())));
        }
        let mut combos = Vec::with_capacity(ps.len());
        let mut idx = Vec::with_capacity(ps.len());
        let mut wins = 0u32;
        let mut seen: u64 = 0;
        for c in &bid {
            seen |= 1 << c;
        }
        for (i, p) in ps.iter().enumerate() {
            let hc = p.hole_cards();
            let (a, bb) = pair_ids(&hc);
            let Some(ci) = self.idx[i].get(&(a, bb)) else {
                return Err(Fail::new("showdown-foreign-combo", format!("player {} holds {} which is not in that player's range (board {})", i, pname((a, bb)), cnames(&bid))));
            };
            for x in [a, bb] {
                if seen >> x & 1 == 1 {
                    return Err(Fail::new(
                        "showdown-duplicate-card",
                        format!("showdown board {} players {}: card {} appears twice", cnames(&bid), ps.iter().map(|q| pname(pair_ids(&q.hole_cards()))).collect::<Vec<_>>().join(" "), cname(x)),
                    ));
                }
                seen |= 1 << x;
            }
            let pb: Vec<u8> = p.board().iter().map(cid_of).collect();
            let pc: Vec<u8> = p.cards().iter().map(cid_of).collect();
            if pb != bid || pc[0..5] != bid[..] || norm_pair(pc[5], pc[6]) != (a, bb) {
                return Err(Fail::new("showdown-player-cards", format!("player {}: board()/cards() = {}/{} inconsistent with showdown board {} and hole cards {}", i, cnames(&pb), cnames(&pc), cnames(&bid), pname((a, bb)))));
            }
            combos.push(*ci);
            idx.push(p.hand().power_index());
            if p.is_winner() {
                wins |= 1 << i;
            }
        }
        Ok(ShRec { t, r, combos, prob_bits: s.probability().to_bits(), idx, wins, winner_len: s.winner_len() })
    }
}

/// Drain an evaluator, translating every showdown; stops with an error when more than `limit`
/// showdowns come out (over-production = no clock needed to detect a runaway iterator).
pub fn drain(cfg: &Config, limit: usize) -> Result<Vec<ShRec>, Fail> {
    let tr = Translator::new(cfg);
    let mut out = Vec::new();
    for s in cfg.evaluator() {
        let rec = tr.record(&s)?;
        if out.len() >= limit {
            return Err(Fail::new("over-production", format!("evaluator yielded more than {} showdowns, the model allows at most that many", limit)));
        }
        out.push(rec);
    }
    Ok(out)
}

/// like `drain`, but over hand ranges built by the caller (e.g. parsed from text) that are claimed
/// to have the contents of `cfg.ranges`
pub fn drain_with(cfg: &Config, players: &Vec<HandRange>, limit: usize) -> Result<Vec<ShRec>, Fail> {
    let tr = Translator::new(cfg);
    let mut out = Vec::new();
    let mut e = FlopExhaustiveEvaluator::new(&e_board(&cfg.flop), players);
    if let Some((a, b, c, d)) = cfg.scope {
        e.scope(a, b, c, d);
    }
    for s in e {
        let rec = tr.record(&s)?;
        if out.len() >= limit {
            return Err(Fail::new("over-production", format!("evaluator yielded more than {} showdowns, the model allows at most that many", limit)));
        }
        out.push(rec);
    }
    Ok(out)
}

pub fn describe_key(cfg: &Config, k: DealKey) -> String {
    let (t, r, cs) = unpack_key(k, &key_widths(cfg));
    let deck = deck49(&cfg.flop);
    format!(
        "turn {} (pos {}), river {} (pos {}), hole cards {}",
        cname(deck[t as usize]),
        t,
        cname(deck[r as usize]),
        r,
        cs.iter().enumerate().map(|(i, c)| pname((cfg.ranges[i].combos[*c as usize].0, cfg.ranges[i].combos[*c as usize].1))).collect::<Vec<_>>().join(" ")
    )
}

// ---------------------------------------------------------------------------------------------
// generators

/// ordered flop of three distinct cards
pub fn flop_strategy() -> impl Strategy<Value = [u8; 3]> {
    (0u8..52, 0u8..51, 0u8..50).prop_map(|(a, b, c)| {
        let b = if b >= a { b + 1 } else { b };
        let mut c2 = c;
        let (lo, hi) = (a.min(b), a.max(b));
        if c2 >= lo {
            c2 += 1;
        }
        if c2 >= hi {
            c2 += 1;
        }
        [a, b, c2]
    })
}

/// weights for evaluator-facing properties: {1, 0.5, 0.25, 0} and arbitrary f32 in [2^-10, 1]
pub fn weight_strategy() -> impl Strategy<Value = f32> {
    prop_oneof![
        5 => Just(1.0f32),
        2 => Just(0.5f32),
        1 => Just(0.25f32),
        1 => Just(0.0f32),
        3 => (0x3a80_0000u32..=0x3f80_0000u32).prop_map(f32::from_bits),
    ]
}

pub fn range_from(pool: Vec<(u8, u8)>, min: usize, max: usize) -> impl Strategy<Value = RangeSpec> {
    let max = max.min(pool.len());
    let min = min.min(max);
    // weight modes: 0-3 all weights 1, 4-9 independent palette weights, 10-11 "nearly flat": one
    // base weight and its neighbouring f32 values (0-3 ulps away)
    (proptest::sample::subsequence(pool, min..=max), proptest::collection::vec(weight_strategy(), max), 0u8..12, proptest::collection::vec(0u32..4, max)).prop_map(|(cs, ws, mode, ulps)| RangeSpec {
        combos: cs
            .iter()
            .enumerate()
            .map(|(i, c)| {
                let w = match mode {
                    0..=3 => 1.0,
                    4..=9 => ws[i],
                    _ => {
                        let base = if ws[0] > 0.001 { ws[0] } else { 0.3 };
                        let b = base.to_bits();
                        let v = f32::from_bits(if base >= 1.0 { b - ulps[i] } else { b + ulps[i] });
                        v.min(1.0)
                    }
                };
                (c.0, c.1, w)
            })
            .collect(),
    })
}

/// The f32 values a product of the given weights can take, whichever order or association the
/// multiplications use (each operation rounded to f32), plus the correctly rounded exact product.
/// For up to 4 factors; None for more (callers fall back to a tolerance).
pub fn product_candidates(ws: &[f32]) -> Option<Vec<u32>> {
    let n = ws.len();
    if n > 4 {
        return None;
    }
    let mut out: Vec<u32> = vec![];
    let exact: f64 = ws.iter().map(|w| *w as f64).product();
    out.push((exact as f32).to_bits());
    // all subsets: results[mask] = set of values obtainable for that sub-multiset
    let full = (1usize << n) - 1;
    let mut res: Vec<Vec<u32>> = vec![vec![]; full + 1];
    for i in 0..n {
        res[1 << i].push(ws[i].to_bits());
    }
    for mask in 1..=full {
        if mask.count_ones() < 2 {
            continue;
        }
        let mut v: Vec<u32> = vec![];
        let mut a = (mask - 1) & mask;
        while a > 0 {
            let b = mask & !a;
            if a < b {
                for x in &res[a] {
                    for y in &res[b] {
                        v.push((f32::from_bits(*x) * f32::from_bits(*y)).to_bits());
                    }
                }
            }
            a = (a - 1) & mask;
        }
        v.sort_unstable();
        v.dedup();
        res[mask] = v;
    }
    // an implementation may also accumulate in f64 (any order) and narrow once at the end
    {
        let mut idx: Vec<usize> = (0..n).collect();
        fn perms(k: usize, idx: &mut Vec<usize>, ws: &[f32], out: &mut Vec<u32>) {
            if k == idx.len() {
                let p = idx.iter().fold(1.0f64, |a, i| a * ws[*i] as f64);
                out.push((p as f32).to_bits());
                return;
            }
            for i in k..idx.len() {
                idx.swap(k, i);
                perms(k + 1, idx, ws, out);
                idx.swap(k, i);
            }
        }
        perms(0, &mut idx, ws, &mut out);
    }
    if n == 0 {
        out.push(1.0f32.to_bits());
    } else {
        out.extend(res[full].iter().copied());
        // starting from the literal 1.0 does not change anything: 1.0 * x == x exactly
    }
    out.sort_unstable();
    out.dedup();
    Some(out)
}

pub fn pool_pairs(cards: &[u8]) -> Vec<(u8, u8)> {
    let mut v = vec![];
    for i in 0..cards.len() {
        for j in (i + 1)..cards.len() {
            v.push(norm_pair(cards[i], cards[j]));
        }
    }
    v.sort_unstable();
    v
}

/// A range of exactly `size` combos chosen pseudo-randomly from all 1326 (seeded, cheap).
pub fn sized_range(size: usize, seed: u64, weights: bool) -> RangeSpec {
    let mut all = all_combos();
    let mut x = mix64(seed);
    // partial Fisher-Yates
    let size = size.min(1326);
    for i in 0..size {
        x = mix64(x);
        let j = i + (x % (1326 - i) as u64) as usize;
        all.swap(i, j);
    }
    all.truncate(size);
    all.sort_unstable();
    RangeSpec {
        combos: all
            .into_iter()
            .enumerate()
            .map(|(i, c)| {
                let w = if !weights {
                    1.0
                } else {
                    match mix64(seed ^ i as u64) % 4 {
                        0 => 1.0,
                        1 => 0.5,
                        2 => 0.75,
                        _ => 0.125,
                    }
                };
                (c.0, c.1, w)
            })
            .collect(),
    }
}

/// Cut ranges down (largest first) until 1176 * prod(|range|) <= budget.  Deterministic.
pub fn fit_budget(cfg: &mut Config, budget: u128) {
    loop {
        if cfg.slots() <= budget {
            return;
        }
        let (i, _) = cfg.ranges.iter().enumerate().max_by_key(|(_, r)| r.combos.len()).unwrap();
        let len = cfg.ranges[i].combos.len();
        if len <= 1 {
            return;
        }
        let others: u128 = cfg.slots() / len as u128;
        let target = ((budget / others.max(1)) as usize).clamp(1, len - 1);
        cfg.ranges[i].combos.truncate(target);
    }
}

/// pool-shaped configuration: all players draw from the pairs of a small card pool (frequent
/// player-player collisions); the pool may contain flop cards.
pub fn pool_config(players: std::ops::RangeInclusive<usize>, pool: std::ops::RangeInclusive<usize>, per_range: usize) -> impl Strategy<Value = Config> {
    (flop_strategy(), proptest::sample::subsequence((0..52u8).collect::<Vec<_>>(), pool), players).prop_flat_map(move |(flop, cards, n)| {
        let pairs = pool_pairs(&cards);
        (Just(flop), proptest::collection::vec(range_from(pairs, 1, per_range), n)).prop_map(|(flop, ranges)| Config { flop, ranges, scope: None })
    })
}

/// free configuration: n players, each a random subset of all combos of size within `sizes`
pub fn free_config(players: std::ops::RangeInclusive<usize>, min: usize, max: usize) -> impl Strategy<Value = Config> {
    (flop_strategy(), proptest::collection::vec(range_from(all_combos(), min, max), players)).prop_map(|(flop, ranges)| Config { flop, ranges, scope: None })
}

// ---------------------------------------------------------------------------------------------
// light fingerprints (no allocation) for sequence comparisons (C04, C15)

impl Translator {
    /// (turn position, river position, fingerprint of everything observable in the showdown)
    #[inline]
    pub fn light(&self, s: &Showdown) -> (u8, u8, u64) {
        let b = s.board();
        let mut h: u64 = 0x9e37_79b9_7f4a_7c15;
        let mut put = |x: u64| {
            h = (h ^ x).wrapping_mul(0x100_0000_01b3).rotate_left(23);
        };
        for c in b.iter() {
            put(cid_of(c) as u64);
        }
        let t = self.pos_of(cid_of(&b[3]));
        let r = self.pos_of(cid_of(&b[4]));
        for p in s.players().iter() {
            let hc = p.hole_cards();
            put(cid_of(&hc[0]) as u64);
            put(cid_of(&hc[1]) as u64);
            put(p.hand().power_index() as u64);
            put(p.is_winner() as u64);
            for c in p.cards().iter() {
                put(cid_of(c) as u64);
            }
            for c in p.board().iter() {
                put(cid_of(c) as u64 + 64);
            }
        }
        put(s.winner_len() as u64);
        put(s.probability().to_bits() as u64);
        (t, r, mix64(h))
    }
    #[inline]
    pub fn pos_of(&self, c: Cid) -> u8 {
        self.pos[c as usize]
    }
}

/// index of position (t,r) in the lexicographic list of the 1176 positions; (48,49) -> 1176
#[inline]
pub fn pos_index(t: u8, r: u8) -> u16 {
    if t >= 48 {
        return 1176;
    }
    let t = t as u32;
    // positions before row t: sum_{k<t} (48-k) = 48t - t(t-1)/2
    (48 * t - t * (t.wrapping_sub(1)) / 2 + (r as u32 - t - 1)) as u16
}
pub fn index_pos(i: u16) -> (u8, u8) {
    let mut i = i as u32;
    for t in 0..48u32 {
        let row = 48 - t;
        if i < row {
            return (t as u8, (t + 1 + i) as u8);
        }
        i -= row;
    }
    (48, 49)
}

/// One drained run as (position index, fingerprint) pairs.
pub type Seq = Vec<(u16, u64)>;

pub fn run_seq(cfg: &Config, limit: usize, extra_next: usize) -> Result<Seq, Fail> {
    let tr = Translator::new(cfg);
    let mut out = Vec::new();
    let mut it = cfg.evaluator().into_iter();
    while let Some(s) = it.next() {
        let (t, r, fp) = tr.light(&s);
        if t == 255 || r == 255 || t >= r {
            return Err(Fail::new("turn-river-order", format!("showdown board {:?}: turn/river deck positions are ({}, {}), expected turn < river among the unseen cards", s.board(), t, r)));
        }
        if out.len() >= limit {
            return Err(Fail::new("over-production", format!("evaluator (scope {:?}) yielded more than {} showdowns, more than the window holds", cfg.scope, limit)));
        }
        out.push((pos_index(t, r), fp));
    }
    for k in 0..extra_next {
        if it.next().is_some() {
            return Err(Fail::new("not-exhausted", format!("evaluator (scope {:?}) returned a showdown on call {} after it had returned None", cfg.scope, k + 1)));
        }
    }
    Ok(out)
}

/// like `run_seq`, over an iterator that already exists (built earlier, possibly with other
/// iterators alive beside it)
pub fn drain_seq(it: &mut <FlopExhaustiveEvaluator as IntoIterator>::IntoIter, tr: &Translator, limit: usize, extra_next: usize, what: &str) -> Result<Seq, Fail> {
    let mut out = Vec::new();
    while let Some(s) = it.next() {
        let (t, r, fp) = tr.light(&s);
        if t == 255 || r == 255 || t >= r {
            return Err(Fail::new("turn-river-order", format!("{}: showdown board {:?}: turn/river deck positions are ({}, {}), expected turn < river among the unseen cards", what, s.board(), t, r)));
        }
        if out.len() >= limit {
            return Err(Fail::new("over-production", format!("{} yielded more than {} showdowns, more than the window holds", what, limit)));
        }
        out.push((pos_index(t, r), fp));
    }
    for k in 0..extra_next {
        if it.next().is_some() {
            return Err(Fail::new("not-exhausted", format!("{} returned a showdown on call {} after it had returned None", what, k + 1)));
        }
    }
    Ok(out)
}

/// n single-combo players holding pairwise disjoint cards, except that seat j shares exactly one
/// card with seat i (i < j): no deal is legal.  With `also_clean`, a second combo is added to seat j
/// that is disjoint from everybody, so that legal deals exist and only the colliding combo is blocked.
pub fn one_overlap_config() -> impl Strategy<Value = Config> {
    (flop_strategy(), 2usize..=23, any::<u64>(), any::<bool>(), 0u8..4).prop_map(|(flop, n, seed, also_clean, bias)| {
        let mut deck: Vec<u8> = (0..52u8).filter(|c| !flop.contains(c)).collect();
        let mut x = mix64(seed);
        for i in (1..deck.len()).rev() {
            x = mix64(x);
            deck.swap(i, (x % (i as u64 + 1)) as usize);
        }
        let n = n.min((deck.len() - 2) / 2);
        let mut ranges: Vec<RangeSpec> = (0..n)
            .map(|k| {
                let p = norm_pair(deck[2 * k], deck[2 * k + 1]);
                RangeSpec { combos: vec![(p.0, p.1, 1.0)] }
            })
            .collect();
        x = mix64(x);
        // i < j; bias 0: any two seats, 1: the last two seats, 2: first and last, 3: two late seats
        let (i, j) = match bias {
            1 => (n - 2, n - 1),
            2 => (0, n - 1),
            3 if n >= 4 => (n - 1 - (1 + (x % 2) as usize), n - 1),
            _ => {
                let a = (x % n as u64) as usize;
                let b = ((x >> 16) % n as u64) as usize;
                if a == b {
                    (a.min(n - 2), a.min(n - 2) + 1)
                } else {
                    (a.min(b), a.max(b))
                }
            }
        };
        let shared = deck[2 * i];
        let other = deck[2 * j + 1];
        let p = norm_pair(shared, other);
        let clean = ranges[j].combos[0];
        ranges[j].combos = if also_clean { vec![(p.0, p.1, 0.5), clean] } else { vec![(p.0, p.1, 0.5)] };
        Config { flop, ranges, scope: None }
    })
}

/// "blocker" range: `size` combos that all contain `card` (max 51), seeded choice of the partners
pub fn holding_range(card: u8, size: usize, seed: u64, weights: bool) -> RangeSpec {
    let mut others: Vec<u8> = (0..52u8).filter(|c| *c != card).collect();
    let mut x = mix64(seed);
    for i in (1..others.len()).rev() {
        x = mix64(x);
        others.swap(i, (x % (i as u64 + 1)) as usize);
    }
    others.truncate(size.clamp(1, 51));
    let mut combos: Vec<(u8, u8, f32)> = others
        .iter()
        .enumerate()
        .map(|(i, o)| {
            let p = norm_pair(card, *o);
            (p.0, p.1, if weights && i % 3 == 1 { 0.5 } else { 1.0 })
        })
        .collect();
    combos.sort_by_key(|c| (c.0, c.1));
    RangeSpec { combos }
}

/// "Elimination" tables: seat 0 holds one known combo (x,y); every other seat has 1-3 combos that
/// contain x or y (dead beside seat 0) plus 1-2 survivors drawn from a pool of five cards, so that
/// the survivors of different seats often share a card; seats are then shuffled.
pub fn elimination_config() -> impl Strategy<Value = Config> {
    (flop_strategy(), 3usize..=5, any::<u64>()).prop_map(|(flop, n, seed)| {
        let mut deck: Vec<u8> = (0..52u8).filter(|c| !flop.contains(c)).collect();
        let mut x = mix64(seed);
        for i in (1..deck.len()).rev() {
            x = mix64(x);
            deck.swap(i, (x % (i as u64 + 1)) as usize);
        }
        let (kx, ky) = (deck[0], deck[1]);
        let pool: Vec<u8> = deck[2..7].to_vec();
        let mut fresh = 7usize;
        let mut ranges = vec![RangeSpec { combos: vec![{ let p = norm_pair(kx, ky); (p.0, p.1, 1.0) }] }];
        for _ in 1..n {
            let mut m = std::collections::BTreeMap::new();
            x = mix64(x);
            let dead = 1 + (x % 3) as usize;
            for d in 0..dead {
                x = mix64(x);
                let k = if x & 1 == 0 { kx } else { ky };
                let o = deck[fresh % deck.len()];
                fresh += 1;
                m.insert(norm_pair(k, o), if d == 0 { 1.0f32 } else { 0.5 });
            }
            x = mix64(x);
            let surv = 1 + ((x >> 3) % 2) as usize;
            for _ in 0..surv {
                x = mix64(x);
                let a = pool[(x % 5) as usize];
                let b = pool[((x >> 8) % 5) as usize];
                if a != b {
                    m.insert(norm_pair(a, b), 1.0);
                }
            }
            ranges.push(RangeSpec { combos: m.into_iter().map(|(p, w)| (p.0, p.1, w)).collect() });
        }
        // shuffle seats
        for i in (1..ranges.len()).rev() {
            x = mix64(x);
            ranges.swap(i, (x % (i as u64 + 1)) as usize);
        }
        Config { flop, ranges, scope: None }
    })
}

// ---------------------------------------------------------------------------------------------
// other ways of consuming the iterator

/// The evaluator's iterator may override any provided `Iterator` method (`nth`, `count`, `last`,
/// `fold`, `size_hint`, ...), and `skip`, `step_by`, `collect`, `for_each` are built on those.
/// Whatever way a caller iterates, it must see the sequence that plain `next()` calls give - the
/// sequence the callers of this function compare with the model.  `sel` picks step widths and the
/// second variant; `limit` bounds the reference run.
pub fn consume_variants(mk: &dyn Fn() -> FlopExhaustiveEvaluator, tr: &Translator, limit: usize, sel: u64, what: &str) -> Result<(), Fail> {
    let show = |x: Option<(u8, u8, u64)>| match x {
        Some((t, r, fp)) => format!("the showdown at position ({},{}) #{:08x}", t, r, fp as u32),
        None => "None".to_string(),
    };
    let mut reference: Vec<(u8, u8, u64)> = vec![];
    let mut it = mk().into_iter();
    loop {
        std::hint::black_box(it.size_hint());
        match it.next() {
            Some(s) => {
                if reference.len() >= limit {
                    return Err(Fail::new("over-production", format!("{}: more than {} showdowns", what, limit)));
                }
                reference.push(tr.light(&s));
            }
            None => break,
        }
    }
    std::hint::black_box(it.size_hint());
    let n = reference.len();
    let mut x = mix64(sel ^ 0x5eed_c0de);
    // nth() walk with mixed step widths (skip() and step_by() are built on nth())
    {
        let mut it = mk().into_iter();
        let mut pos = 0usize;
        loop {
            x = mix64(x);
            let r = x >> 8;
            let k = match x % 16 {
                0..=7 => r % 3,
                8..=11 => r % 8,
                12..=13 => r % 64,
                14 => r % (n as u64 / 4 + 2),
                _ => r % (n as u64 + 2),
            } as usize;
            let got = it.nth(k).map(|s| tr.light(&s));
            let want = reference.get(pos + k).copied();
            if got != want {
                return Err(Fail::new("nth-differs", format!("{}: after {} showdowns were consumed, nth({}) returns {}, but {} next() calls lead to {} ({} showdowns in all)", what, pos, k, show(got), k + 1, show(want), n)));
            }
            if want.is_none() {
                break;
            }
            pos += k + 1;
        }
        if it.nth(0).is_some() || it.next().is_some() {
            return Err(Fail::new("not-exhausted", format!("{}: a showdown is returned after nth() had returned None", what)));
        }
    }
    x = mix64(x);
    match sel % 3 {
        0 => {
            let k = (x >> 3) as usize % (n + 2);
            let w = 1 + (x >> 40) as usize % 9;
            let got: Vec<_> = mk().into_iter().skip(k).step_by(w).take(limit + 1).map(|s| tr.light(&s)).collect();
            let want: Vec<_> = reference.iter().skip(k).step_by(w).copied().collect();
            if got != want {
                let i = got.iter().zip(want.iter()).position(|(a, b)| a != b).unwrap_or(got.len().min(want.len()));
                return Err(Fail::new("skip-step-differs", format!("{}: skip({}).step_by({}) gives {} showdowns, picking from the next() sequence gives {}; first difference at element {}: {} instead of {}", what, k, w, got.len(), want.len(), i, show(got.get(i).copied()), show(want.get(i).copied()))));
            }
        }
        1 => {
            let c = mk().into_iter().count();
            if c != n {
                return Err(Fail::new("count-differs", format!("{}: count() = {}, next() yields {} showdowns", what, c, n)));
            }
            let l = mk().into_iter().last().map(|s| tr.light(&s));
            if l != reference.last().copied() {
                return Err(Fail::new("last-differs", format!("{}: last() returns {}, the last showdown next() yields is {}", what, show(l), show(reference.last().copied()))));
            }
        }
        _ => {
            let mut got: Vec<(u8, u8, u64)> = Vec::with_capacity(n);
            if n <= 200_000 && x & 1 == 0 {
                let v: Vec<Showdown> = mk().into_iter().collect();
                got.extend(v.iter().map(|s| tr.light(s)));
            } else {
                mk().into_iter().for_each(|s| got.push(tr.light(&s)));
            }
            if got != reference {
                let i = got.iter().zip(reference.iter()).position(|(a, b)| a != b).unwrap_or(got.len().min(n));
                return Err(Fail::new("collect-differs", format!("{}: collect()/for_each() gives {} showdowns, next() {}; first difference at element {}: {} instead of {}", what, got.len(), n, i, show(got.get(i).copied()), show(reference.get(i).copied()))));
            }
        }
    }
    Ok(())
}
