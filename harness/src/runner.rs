//! Generated-input runner: sharded proptest streams, enumerating streams, shrinking, replay
//! files, evidence.  Every run is a pure function of (code, VERIF_SEED, tier).

use proptest::strategy::{Strategy, ValueTree};
use proptest::test_runner::{Config, RngAlgorithm, TestRng, TestRunner};
use serde::Serialize;
use serde_json::{json, Map, Value};
use std::cell::RefCell;
use std::collections::{BTreeMap, HashSet};
use std::panic::{catch_unwind, AssertUnwindSafe};
use std::sync::atomic::{AtomicBool, AtomicU64, Ordering};
use std::sync::Mutex;
use std::time::Instant;

/// root of the verification tree: $VERIF_DIR (set by ./check to its own directory), default /verif
pub fn verif_dir() -> String {
    std::env::var("VERIF_DIR").ok().filter(|s| !s.is_empty()).unwrap_or_else(|| "/verif".to_string())
}
pub const NSHARDS: usize = 16;

/// set as soon as a VIOLATION line has been printed (used by the time-budget watchdog)
pub static VIOLATION_SEEN: AtomicBool = AtomicBool::new(false);
static CURRENT_STREAM: Mutex<String> = Mutex::new(String::new());

/// Time budget of one check run ($VERIF_BUDGET_S; default 900 s quick, 3 h thorough).  A run that
/// exceeds it ends with exit 2 (inconclusive) - or 1 if a violation had already been reported -
/// instead of hanging: on a changed tree an iterator may no longer terminate.
pub fn start_watchdog(prop: &str, tier: Tier) {
    let budget = std::env::var("VERIF_BUDGET_S").ok().and_then(|s| s.parse::<u64>().ok()).unwrap_or(match tier {
        Tier::Quick => 900,
        Tier::Thorough => 3 * 3600,
    });
    let prop = prop.to_string();
    std::thread::spawn(move || {
        std::thread::sleep(std::time::Duration::from_secs(budget));
        let stream = CURRENT_STREAM.lock().map(|s| s.clone()).unwrap_or_default();
        let seen = VIOLATION_SEEN.load(Ordering::SeqCst);
        println!("{} {}: INCONCLUSIVE, time budget of {} s exceeded while running stream '{}'{}", prop, tier.name(), budget, stream, if seen { " (a violation had already been reported above)" } else { "" });
        std::process::exit(if seen { 1 } else { 2 });
    });
}
pub const WORKER_STACK: usize = 256 << 20;
const DISTINCT_CAP: usize = 6_000_000;

#[derive(Clone, Copy, PartialEq, Eq, Debug)]
pub enum Tier {
    Quick,
    Thorough,
}
impl Tier {
    pub fn name(&self) -> &'static str {
        match self {
            Tier::Quick => "quick",
            Tier::Thorough => "thorough",
        }
    }
    pub fn pick<T>(&self, q: T, t: T) -> T {
        match self {
            Tier::Quick => q,
            Tier::Thorough => t,
        }
    }
}

/// What a passing case reports back.
#[derive(Clone, Copy, Default, Debug)]
pub struct Outcome {
    /// non-trivial by the property's stated rule
    pub nontrivial: bool,
    /// fingerprint used to count distinct non-trivial cases (random streams)
    pub fp: u64,
    /// bit i set = the case belongs to class `classes[i]` of the stream
    pub classes: u64,
}
impl Outcome {
    pub fn new(nontrivial: bool, fp: u64, classes: u64) -> Self {
        Outcome {
            nontrivial,
            fp,
            classes,
        }
    }
}

#[derive(Clone, Debug)]
pub struct Fail {
    /// human-readable: expected vs. actual
    pub what: String,
    /// exact signature used for known-finding matching
    pub sig: String,
}
impl Fail {
    pub fn new(sig: impl Into<String>, what: impl Into<String>) -> Self {
        Fail {
            what: what.into(),
            sig: sig.into(),
        }
    }
}
pub type CheckResult = Result<Outcome, Fail>;

#[macro_export]
macro_rules! vfail {
    ($sig:expr, $($arg:tt)*) => {
        return Err($crate::runner::Fail::new($sig, format!($($arg)*)))
    };
}
#[macro_export]
macro_rules! vensure {
    ($cond:expr, $sig:expr, $($arg:tt)*) => {
        if !($cond) {
            return Err($crate::runner::Fail::new($sig, format!($($arg)*)));
        }
    };
}

// ---------------------------------------------------------------------------------------------
// panic capture

thread_local! {
    static LAST_PANIC: RefCell<Option<String>> = const { RefCell::new(None) };
    static CATCH_DEPTH: std::cell::Cell<u32> = const { std::cell::Cell::new(0) };
}

pub fn install_panic_hook() {
    std::panic::set_hook(Box::new(|info| {
        let loc = info
            .location()
            .map(|l| {
                let f = l.file();
                // keep the path relative to the crate so signatures do not depend on where /repo is
                let f = f.rsplit_once("/src/").map(|(_, b)| format!("src/{}", b)).unwrap_or(f.to_string());
                format!("{}:{}", f, l.line())
            })
            .unwrap_or_else(|| "?".into());
        let msg = if let Some(s) = info.payload().downcast_ref::<&str>() {
            s.to_string()
        } else if let Some(s) = info.payload().downcast_ref::<String>() {
            s.clone()
        } else {
            "<non-string panic>".to_string()
        };
        if CATCH_DEPTH.with(|d| d.get()) == 0 {
            // a panic outside any guarded call is a bug of the harness itself: show it
            eprintln!("harness panic: {} at {}", msg, loc);
        }
        LAST_PANIC.with(|p| *p.borrow_mut() = Some(format!("{} at {}", msg, loc)));
    }));
}

/// Run `f`, turning a panic into `Err(message at file:line)`.
pub fn catch<T>(f: impl FnOnce() -> T) -> Result<T, String> {
    CATCH_DEPTH.with(|d| d.set(d.get() + 1));
    let r = catch_unwind(AssertUnwindSafe(f));
    CATCH_DEPTH.with(|d| d.set(d.get() - 1));
    match r {
        Ok(v) => Ok(v),
        Err(_) => Err(LAST_PANIC
            .with(|p| p.borrow_mut().take())
            .unwrap_or_else(|| "<panic without message>".into())),
    }
}

fn guarded<C>(check: &(impl Fn(&C) -> CheckResult + ?Sized), c: &C) -> CheckResult {
    match catch(|| check(c)) {
        Ok(r) => r,
        Err(p) => {
            // signature = panic location only (messages may contain input-dependent numbers)
            let loc = p.rsplit(" at ").next().unwrap_or("?").to_string();
            Err(Fail::new(format!("panic@{}", loc), format!("panicked: {}", p)))
        }
    }
}

// ---------------------------------------------------------------------------------------------
// hashing / seeds

pub fn mix64(mut x: u64) -> u64 {
    x = x.wrapping_add(0x9e37_79b9_7f4a_7c15);
    x = (x ^ (x >> 30)).wrapping_mul(0xbf58_476d_1ce4_e5b9);
    x = (x ^ (x >> 27)).wrapping_mul(0x94d0_49bb_1331_11eb);
    x ^ (x >> 31)
}
pub fn hash_str(s: &str) -> u64 {
    let mut h = 0xcbf2_9ce4_8422_2325u64;
    for b in s.bytes() {
        h ^= b as u64;
        h = h.wrapping_mul(0x100_0000_01b3);
    }
    h
}
pub fn fp_of<T: std::hash::Hash>(t: &T) -> u64 {
    use std::hash::Hasher;
    let mut h = fxhash::FxHasher64::default();
    t.hash(&mut h);
    mix64(h.finish())
}
fn seed32(seed: u64, prop: &str, stream: &str, shard: usize) -> [u8; 32] {
    let mut out = [0u8; 32];
    let mut x = mix64(seed ^ hash_str(prop).rotate_left(17) ^ hash_str(stream).rotate_left(41) ^ (shard as u64) << 3);
    for i in 0..4 {
        x = mix64(x.wrapping_add(i as u64));
        out[i * 8..i * 8 + 8].copy_from_slice(&x.to_le_bytes());
    }
    out
}

// ---------------------------------------------------------------------------------------------
// reports

#[derive(Clone, Debug)]
pub struct StreamCfg {
    pub name: &'static str,
    pub classes: &'static [&'static str],
    pub cases: u64,
    pub max_shrink: u32,
    pub shards: usize,
}
impl StreamCfg {
    pub fn new(name: &'static str, classes: &'static [&'static str], cases: u64) -> Self {
        StreamCfg {
            name,
            classes,
            cases,
            max_shrink: 2000,
            shards: NSHARDS,
        }
    }
    pub fn shrink(mut self, n: u32) -> Self {
        self.max_shrink = n;
        self
    }
    pub fn shards(mut self, n: usize) -> Self {
        self.shards = n.max(1);
        self
    }
}

#[derive(Clone, Debug, Serialize)]
pub struct StreamReport {
    pub name: String,
    pub kind: String,
    pub evaluations: u64,
    pub distinct_nontrivial: u64,
    pub exhaustive: bool,
    pub classes: BTreeMap<String, u64>,
    pub wall_s: f64,
    pub failed: bool,
}

#[derive(Clone, Debug)]
pub struct Violation {
    pub stream: String,
    pub replay: String,
    pub what: String,
    pub sig: String,
}

#[derive(Clone, Debug, serde::Deserialize)]
pub struct KnownFinding {
    pub property: String,
    pub signature: String,
    pub what: String,
}

struct Shard {
    evals: u64,
    nontrivial: u64,
    distinct: HashSet<u64>,
    class_counts: [u64; 64],
    samples: Vec<(u64, Value)>,
    class_samples: BTreeMap<usize, (u64, Value)>,
    failure: Option<(u64, Value, Fail)>,
    known_hits: Vec<(String, String)>,
}
impl Default for Shard {
    fn default() -> Self {
        Shard {
            evals: 0,
            nontrivial: 0,
            distinct: HashSet::new(),
            class_counts: [0; 64],
            samples: vec![],
            class_samples: BTreeMap::new(),
            failure: None,
            known_hits: vec![],
        }
    }
}

pub struct Ctx {
    pub prop: String,
    pub tier: Tier,
    pub seed: u64,
    pub start: Instant,
    pub level: &'static str,
    pub rule: String,
    pub assumptions: Vec<String>,
    pub streams: Vec<StreamReport>,
    pub samples: Vec<Value>,
    pub violations: Vec<Violation>,
    pub known_hits: Vec<String>,
    pub excluded_known: u64,
    pub unhealthy: Vec<String>,
    pub extra: Map<String, Value>,
    pub known: Vec<KnownFinding>,
    pub exhaustive: bool,
    distinct_total: u64,
    evals_total: u64,
}

/// VERIF_SCALE (0 < s <= 1): fraction of the generated cases to run (used by the debug-profile
/// replica of the thorough tier); 1 when unset.
pub fn env_scale() -> f64 {
    std::env::var("VERIF_SCALE").ok().and_then(|s| s.parse::<f64>().ok()).filter(|s| *s > 0.0 && *s <= 1.0).unwrap_or(1.0)
}
pub fn scaled(n: u64) -> u64 {
    let s = env_scale();
    if s >= 1.0 {
        n
    } else {
        ((n as f64 * s).ceil() as u64).max(1).min(n.max(1))
    }
}

pub fn env_seed() -> u64 {
    std::env::var("VERIF_SEED")
        .ok()
        .and_then(|s| s.trim().parse::<i128>().ok())
        .map(|v| v as u64)
        .unwrap_or(0)
}

pub fn load_known(prop: &str) -> Vec<KnownFinding> {
    let path = format!("{}/known_findings.json", verif_dir());
    let Ok(txt) = std::fs::read_to_string(&path) else {
        return vec![];
    };
    let Ok(v) = serde_json::from_str::<Value>(&txt) else {
        eprintln!("warning: {} is not valid JSON; ignoring", path);
        return vec![];
    };
    v.get("known")
        .and_then(|k| k.as_array())
        .map(|a| {
            a.iter()
                .filter_map(|e| serde_json::from_value::<KnownFinding>(e.clone()).ok())
                .filter(|k| k.property == prop)
                .collect()
        })
        .unwrap_or_default()
}

impl Ctx {
    pub fn new(prop: &str, tier: Tier) -> Ctx {
        Ctx {
            prop: prop.to_string(),
            tier,
            seed: env_seed(),
            start: Instant::now(),
            level: "exploration",
            rule: String::new(),
            assumptions: vec![],
            streams: vec![],
            samples: vec![],
            violations: vec![],
            known_hits: vec![],
            excluded_known: 0,
            unhealthy: vec![],
            extra: Map::new(),
            known: load_known(prop),
            exhaustive: false,
            distinct_total: 0,
            evals_total: 0,
        }
    }

    pub fn failed(&self) -> bool {
        !self.violations.is_empty()
    }

    fn is_known(&self, sig: &str) -> Option<&KnownFinding> {
        self.known.iter().find(|k| k.signature == sig)
    }

    /// Write a replay file and register a violation.
    pub fn report_violation(&mut self, stream: &str, case: &Value, fail: &Fail) {
        if let Some(k) = self.is_known(&fail.sig) {
            let line = format!("KNOWN-FINDING: property={} {}", self.prop, k.what);
            if !self.known_hits.contains(&line) {
                println!("{}", line);
                self.known_hits.push(line);
            }
            self.excluded_known += 1;
            return;
        }
        let body = json!({
            "property": self.prop,
            "stream": stream,
            "case": case,
            "what": fail.what,
            "signature": fail.sig,
            "seed": self.seed,
            "tier": self.tier.name(),
        });
        let h = hash_str(&format!("{}{}{}", stream, fail.sig, case));
        let dir = format!("{}/replays", verif_dir());
        let _ = std::fs::create_dir_all(&dir);
        let path = format!("{}/{}-{}-{:012x}.json", dir, self.prop, stream, h & 0xffff_ffff_ffff);
        if let Err(e) = std::fs::write(&path, serde_json::to_string_pretty(&body).unwrap()) {
            eprintln!("cannot write replay {}: {}", path, e);
        }
        println!("VIOLATION property={} replay={}", self.prop, path);
        VIOLATION_SEEN.store(true, Ordering::SeqCst);
        let mut w = fail.what.clone();
        if w.len() > 1500 {
            w.truncate(1500);
            w.push_str("...");
        }
        println!("  stream={} signature={}\n  {}", stream, fail.sig, w);
        self.violations.push(Violation {
            stream: stream.to_string(),
            replay: path,
            what: fail.what.clone(),
            sig: fail.sig.clone(),
        });
    }

    fn absorb(&mut self, cfg: &StreamCfg, kind: &str, exhaustive: bool, shards: Vec<Shard>, by_construction: bool, t0: Instant, brief_fail: Option<Value>) {
        let mut evals = 0u64;
        let mut nontriv = 0u64;
        let mut distinct: HashSet<u64> = HashSet::new();
        let mut counts = [0u64; 64];
        let mut samples: Vec<(u64, Value)> = vec![];
        let mut class_samples: BTreeMap<usize, (u64, Value)> = BTreeMap::new();
        let mut failure: Option<(u64, Value, Fail)> = None;
        let mut capped = false;
        for sh in shards {
            evals += sh.evals;
            nontriv += sh.nontrivial;
            if !by_construction {
                for f in sh.distinct {
                    if distinct.len() < DISTINCT_CAP {
                        distinct.insert(f);
                    } else {
                        capped = true;
                    }
                }
            }
            for i in 0..64 {
                counts[i] += sh.class_counts[i];
            }
            samples.extend(sh.samples);
            for (k, v) in sh.class_samples {
                match class_samples.get(&k) {
                    Some((i, _)) if *i <= v.0 => {}
                    _ => {
                        class_samples.insert(k, v);
                    }
                }
            }
            for (sig, what) in sh.known_hits {
                let line = format!("KNOWN-FINDING: property={} {}", self.prop, what);
                if !self.known_hits.contains(&line) {
                    println!("{}", line);
                    self.known_hits.push(line);
                }
                let _ = sig;
                self.excluded_known += 1;
            }
            if let Some(f) = sh.failure {
                match &failure {
                    Some(g) if g.0 <= f.0 => {}
                    _ => failure = Some(f),
                }
            }
        }
        let d = if by_construction { nontriv } else { distinct.len() as u64 };
        if capped {
            self.extra.insert(format!("distinct_capped_{}", cfg.name), json!(true));
        }
        samples.sort_by_key(|s| s.0);
        let mut classes = BTreeMap::new();
        for (i, n) in cfg.classes.iter().enumerate() {
            classes.insert(n.to_string(), counts[i]);
        }
        // keep a handful of samples per stream: first two, middle, last two, one per class
        let mut keep: Vec<Value> = vec![];
        let n = samples.len();
        let pick: Vec<usize> = if n <= 5 { (0..n).collect() } else { vec![0, 1, n / 2, n - 2, n - 1] };
        for i in pick {
            keep.push(json!({"stream": cfg.name, "index": samples[i].0, "case": samples[i].1}));
        }
        for (k, (i, v)) in class_samples.iter() {
            if keep.len() >= 12 {
                break;
            }
            keep.push(json!({"stream": cfg.name, "class": cfg.classes[*k], "index": i, "case": v}));
        }
        self.samples.extend(keep);
        let failed = failure.is_some();
        if let Some((_, case, fail)) = failure {
            let _ = brief_fail;
            self.report_violation(cfg.name, &case, &fail);
        }
        self.evals_total += evals;
        self.distinct_total += d;
        self.streams.push(StreamReport {
            name: cfg.name.to_string(),
            kind: kind.to_string(),
            evaluations: evals,
            distinct_nontrivial: d,
            exhaustive,
            classes,
            wall_s: t0.elapsed().as_secs_f64(),
            failed,
        });
        eprintln!(
            "[{} {}] stream {:<22} {:>10} cases, {:>10} distinct non-trivial, {:.2}s{}",
            self.prop,
            self.tier.name(),
            cfg.name,
            evals,
            d,
            t0.elapsed().as_secs_f64(),
            if failed { "  ** FAILED **" } else { "" }
        );
    }

    /// proptest-driven random stream, `cfg.shards` independent runners.
    pub fn run_random<S, M, F>(&mut self, cfg: StreamCfg, mk: M, check: F)
    where
        S: Strategy,
        S::Value: Serialize + Clone,
        M: Fn() -> S + Sync,
        F: Fn(&S::Value) -> CheckResult + Sync,
    {
        self.run_random_brief(cfg, mk, check, |v| serde_json::to_value(v).unwrap_or(Value::Null))
    }

    pub fn run_random_brief<S, M, F, B>(&mut self, cfg: StreamCfg, mk: M, check: F, brief: B)
    where
        S: Strategy,
        S::Value: Serialize + Clone,
        M: Fn() -> S + Sync,
        F: Fn(&S::Value) -> CheckResult + Sync,
        B: Fn(&S::Value) -> Value + Sync,
    {
        if self.failed() {
            eprintln!("[{} {}] stream {:<22} skipped (a violation has already been reported)", self.prop, self.tier.name(), cfg.name);
            return;
        }
        if let Ok(mut c) = CURRENT_STREAM.lock() {
            *c = cfg.name.to_string();
        }
        let t0 = Instant::now();
        let total = scaled(cfg.cases);
        let nsh = cfg.shards.min(total.max(1) as usize).max(1);
        let per = total / nsh as u64;
        let rem = total % nsh as u64;
        let stop = AtomicBool::new(false);
        let known: Vec<KnownFinding> = self.known.clone();
        let seed = self.seed;
        let prop = self.prop.clone();
        let results: Mutex<Vec<(usize, Shard)>> = Mutex::new(vec![]);
        std::thread::scope(|sc| {
            for shard in 0..nsh {
                let (mk, check, brief, stop, known, results, cfg, prop) = (&mk, &check, &brief, &stop, &known, &results, &cfg, &prop);
                std::thread::Builder::new()
                    .stack_size(WORKER_STACK)
                    .spawn_scoped(sc, move || {
                        let mut sh = Shard::default();
                        let n = per + if (shard as u64) < rem { 1 } else { 0 };
                        let config = Config {
                            cases: n as u32,
                            failure_persistence: None,
                            max_shrink_iters: cfg.max_shrink,
                            ..Config::default()
                        };
                        let rng = TestRng::from_seed(RngAlgorithm::ChaCha, &seed32(seed, prop, cfg.name, shard));
                        let mut runner = TestRunner::new_with_rng(config, rng);
                        let strat = mk();
                        for i in 0..n {
                            if stop.load(Ordering::Relaxed) {
                                break;
                            }
                            let gi = i * nsh as u64 + shard as u64;
                            let mut tree = match strat.new_tree(&mut runner) {
                                Ok(t) => t,
                                Err(_) => continue,
                            };
                            let v = tree.current();
                            sh.evals += 1;
                            match guarded(check, &v) {
                                Ok(o) => {
                                    if o.nontrivial {
                                        sh.nontrivial += 1;
                                        if sh.distinct.len() < DISTINCT_CAP {
                                            sh.distinct.insert(o.fp);
                                        }
                                    }
                                    let mut c = o.classes;
                                    while c != 0 {
                                        let b = c.trailing_zeros() as usize;
                                        c &= c - 1;
                                        sh.class_counts[b] += 1;
                                        if !sh.class_samples.contains_key(&b) {
                                            sh.class_samples.insert(b, (gi, brief(&v)));
                                        }
                                    }
                                    if i < 2 || i + 2 >= n || i == n / 2 {
                                        sh.samples.push((gi, brief(&v)));
                                    }
                                }
                                Err(first) => {
                                    // shrink
                                    let mut best_v = v.clone();
                                    let mut best_f = first;
                                    let mut iters = 0u32;
                                    let mut last_failed = true;
                                    let t_shrink = Instant::now();
                                    loop {
                                        let moved = if last_failed { tree.simplify() } else { tree.complicate() };
                                        // shrinking is bounded by steps and by 45 s: any failing case is a valid replay
                                        if !moved || iters >= cfg.max_shrink || t_shrink.elapsed().as_secs() >= 45 {
                                            break;
                                        }
                                        iters += 1;
                                        let cur = tree.current();
                                        match guarded(check, &cur) {
                                            Ok(_) => last_failed = false,
                                            Err(f) => {
                                                // do not shrink into a known finding
                                                if known.iter().any(|k| k.signature == f.sig) {
                                                    last_failed = false;
                                                } else {
                                                    last_failed = true;
                                                    best_v = cur;
                                                    best_f = f;
                                                }
                                            }
                                        }
                                    }
                                    if let Some(k) = known.iter().find(|k| k.signature == best_f.sig) {
                                        sh.known_hits.push((k.signature.clone(), k.what.clone()));
                                        continue;
                                    }
                                    best_f.what = format!("{} [shrunk in {} steps]", best_f.what, iters);
                                    sh.failure = Some((gi, serde_json::to_value(&best_v).unwrap_or(Value::Null), best_f));
                                    stop.store(true, Ordering::Relaxed);
                                    break;
                                }
                            }
                        }
                        results.lock().unwrap().push((shard, sh));
                    })
                    .expect("spawn shard");
            }
        });
        let mut rs = results.into_inner().unwrap();
        rs.sort_by_key(|r| r.0);
        // deterministic choice of the reported failure: lowest shard
        let mut shards: Vec<Shard> = rs.into_iter().map(|r| r.1).collect();
        let mut seen_fail = false;
        for (si, sh) in shards.iter_mut().enumerate() {
            if sh.failure.is_some() {
                if seen_fail {
                    sh.failure = None;
                } else {
                    seen_fail = true;
                    if let Some(f) = sh.failure.as_mut() {
                        f.0 = si as u64;
                    }
                }
            }
        }
        self.absorb(&cfg, "proptest", false, shards, false, t0, None);
    }

    /// Enumerating stream over indices 0..n; `make(i)` must be injective (distinct cases by
    /// construction).  Work is distributed dynamically, the reported failure is the one with the
    /// smallest index.
    pub fn run_enum<C, M, F>(&mut self, cfg: StreamCfg, n: u64, exhaustive: bool, make: M, check: F)
    where
        C: Serialize,
        M: Fn(u64) -> C + Sync,
        F: Fn(&C) -> CheckResult + Sync,
    {
        self.run_enum_brief(cfg, n, exhaustive, make, check, |v| serde_json::to_value(v).unwrap_or(Value::Null))
    }

    pub fn run_enum_brief<C, M, F, B>(&mut self, cfg: StreamCfg, n: u64, exhaustive: bool, make: M, check: F, brief: B)
    where
        C: Serialize,
        M: Fn(u64) -> C + Sync,
        F: Fn(&C) -> CheckResult + Sync,
        B: Fn(&C) -> Value + Sync,
    {
        if self.failed() {
            eprintln!("[{} {}] stream {:<22} skipped (a violation has already been reported)", self.prop, self.tier.name(), cfg.name);
            return;
        }
        if let Ok(mut c) = CURRENT_STREAM.lock() {
            *c = cfg.name.to_string();
        }
        let t0 = Instant::now();
        // a scale < 1 evaluates every k-th index only (and the stream is then not exhaustive)
        let stride = (1.0 / env_scale()).round().max(1.0) as u64;
        let full_n = n;
        let n = (full_n + stride - 1) / stride;
        let exhaustive = exhaustive && stride == 1;
        let make = |i: u64| make(i * stride);
        let next = AtomicU64::new(0);
        let min_fail = AtomicU64::new(u64::MAX);
        let chunk = (n / (NSHARDS as u64 * 64)).clamp(1, 4096);
        let known: Vec<KnownFinding> = self.known.clone();
        let results: Mutex<Vec<Shard>> = Mutex::new(vec![]);
        let nthreads = cfg.shards.min(n.max(1) as usize).max(1);
        std::thread::scope(|sc| {
            for _ in 0..nthreads {
                let (make, check, brief, next, min_fail, known, results) = (&make, &check, &brief, &next, &min_fail, &known, &results);
                std::thread::Builder::new()
                    .stack_size(WORKER_STACK)
                    .spawn_scoped(sc, move || {
                        let mut sh = Shard::default();
                        loop {
                            let lo = next.fetch_add(chunk, Ordering::Relaxed);
                            if lo >= n || lo > min_fail.load(Ordering::Relaxed) {
                                break;
                            }
                            let hi = (lo + chunk).min(n);
                            for i in lo..hi {
                                if i > min_fail.load(Ordering::Relaxed) {
                                    break;
                                }
                                let c = make(i);
                                sh.evals += 1;
                                match guarded(check, &c) {
                                    Ok(o) => {
                                        if o.nontrivial {
                                            sh.nontrivial += 1;
                                        }
                                        let mut cl = o.classes;
                                        while cl != 0 {
                                            let b = cl.trailing_zeros() as usize;
                                            cl &= cl - 1;
                                            sh.class_counts[b] += 1;
                                            match sh.class_samples.get(&b) {
                                                Some((j, _)) if *j <= i => {}
                                                _ => {
                                                    sh.class_samples.insert(b, (i, brief(&c)));
                                                }
                                            }
                                        }
                                        if i < 2 || i + 2 >= n || i == n / 2 {
                                            sh.samples.push((i, brief(&c)));
                                        }
                                    }
                                    Err(f) => {
                                        if let Some(k) = known.iter().find(|k| k.signature == f.sig) {
                                            sh.known_hits.push((k.signature.clone(), k.what.clone()));
                                            continue;
                                        }
                                        min_fail.fetch_min(i, Ordering::Relaxed);
                                        match &sh.failure {
                                            Some(g) if g.0 <= i => {}
                                            _ => sh.failure = Some((i, serde_json::to_value(&c).unwrap_or(Value::Null), f)),
                                        }
                                        break;
                                    }
                                }
                            }
                        }
                        results.lock().unwrap().push(sh);
                    })
                    .expect("spawn enum worker");
            }
        });
        let shards = results.into_inner().unwrap();
        let complete = min_fail.load(Ordering::Relaxed) == u64::MAX;
        self.absorb(&cfg, "enumeration", exhaustive && complete, shards, true, t0, None);
    }

    /// Record a stream whose loop was run by the property itself (hot loops).
    #[allow(clippy::too_many_arguments)]
    pub fn record_stream(
        &mut self,
        name: &str,
        kind: &str,
        evaluations: u64,
        distinct_nontrivial: u64,
        exhaustive: bool,
        classes: BTreeMap<String, u64>,
        samples: Vec<Value>,
        wall_s: f64,
        failure: Option<(Value, Fail)>,
    ) {
        let failed = failure.is_some();
        if let Some((case, fail)) = failure {
            self.report_violation(name, &case, &fail);
        }
        for s in samples {
            self.samples.push(json!({"stream": name, "case": s}));
        }
        self.evals_total += evaluations;
        self.distinct_total += distinct_nontrivial;
        self.streams.push(StreamReport {
            name: name.to_string(),
            kind: kind.to_string(),
            evaluations,
            distinct_nontrivial,
            exhaustive,
            classes,
            wall_s,
            failed,
        });
        eprintln!(
            "[{} {}] stream {:<22} {:>10} cases, {:>10} distinct non-trivial, {:.2}s{}",
            self.prop,
            self.tier.name(),
            name,
            evaluations,
            distinct_nontrivial,
            wall_s,
            if failed { "  ** FAILED **" } else { "" }
        );
    }

    /// Generator health: class `class` of stream `stream` must have at least `min` members,
    /// otherwise the run is inconclusive (exit 2) rather than vacuously green.
    pub fn require_class(&mut self, stream: &str, class: &str, min: u64) {
        if let Some(s) = self.streams.iter().find(|s| s.name == stream) {
            if s.failed {
                return;
            }
            let n = s.classes.get(class).copied().unwrap_or(0);
            let min = if env_scale() < 1.0 { ((min as f64) * env_scale() * 0.5).floor() as u64 } else { min };
            if n < min {
                self.unhealthy.push(format!("stream {} class {}: {} < required {}", stream, class, n, min));
            }
        } else {
            self.unhealthy.push(format!("stream {} did not run", stream));
        }
    }

    pub fn stream_class(&self, stream: &str, class: &str) -> u64 {
        self.streams
            .iter()
            .find(|s| s.name == stream)
            .and_then(|s| s.classes.get(class).copied())
            .unwrap_or(0)
    }

    /// Write evidence, print the summary, return the process exit code.
    pub fn finish(mut self) -> i32 {
        let wall = self.start.elapsed().as_secs_f64();
        let mut classes = Map::new();
        for s in &self.streams {
            for (k, v) in &s.classes {
                classes.insert(format!("{}/{}", s.name, k), json!(v));
            }
        }
        if self.samples.len() > 60 {
            // keep it readable: first 60
            self.samples.truncate(60);
        }
        let all_exhaustive = self.exhaustive && self.violations.is_empty();
        let mut coverage = Map::new();
        coverage.insert("evaluations".into(), json!(self.evals_total));
        coverage.insert("distinct_nontrivial".into(), json!(self.distinct_total));
        coverage.insert("rule".into(), json!(self.rule));
        coverage.insert("samples".into(), json!(self.samples));
        coverage.insert("exhaustive".into(), json!(all_exhaustive));
        coverage.insert("classes".into(), Value::Object(classes));
        coverage.insert("streams".into(), serde_json::to_value(&self.streams).unwrap());
        coverage.insert("excluded_known".into(), json!(self.excluded_known));
        coverage.insert("case_scale".into(), json!(env_scale()));
        coverage.insert("build_profile".into(), json!(if std::env::var("VERIF_EVIDENCE_SUFFIX").map(|s| s.contains("debug")).unwrap_or(false) { "dbgchk (espada opt-level 0, overflow checks and debug assertions on)" } else { "release" }));
        coverage.insert("known_findings_reported".into(), json!(self.known_hits));
        coverage.insert("generator_health_problems".into(), json!(self.unhealthy));
        coverage.insert(
            "violation_replays".into(),
            json!(self.violations.iter().map(|v| v.replay.clone()).collect::<Vec<_>>()),
        );
        for (k, v) in std::mem::take(&mut self.extra) {
            coverage.insert(k, v);
        }
        let ev = json!({
            "property_id": self.prop,
            "tier": self.tier.name(),
            "seed": (self.seed & 0x7fff_ffff_ffff_ffff) as i64,
            "level": self.level,
            "coverage": Value::Object(coverage),
            "assumptions": self.assumptions,
            "wall_s": wall,
            "violations": self.violations.len(),
        });
        let dir = format!("{}/evidence", verif_dir());
        let _ = std::fs::create_dir_all(&dir);
        let suffix = std::env::var("VERIF_EVIDENCE_SUFFIX").unwrap_or_default();
        let path = format!("{}/{}{}.json", dir, self.prop, suffix);
        if let Err(e) = std::fs::write(&path, serde_json::to_string_pretty(&ev).unwrap()) {
            eprintln!("cannot write evidence {}: {}", path, e);
            return 2;
        }
        if !self.violations.is_empty() {
            println!(
                "{} {}: {} violation(s); {} cases, {} distinct non-trivial, {:.1}s",
                self.prop,
                self.tier.name(),
                self.violations.len(),
                self.evals_total,
                self.distinct_total,
                wall
            );
            return 1;
        }
        if !self.unhealthy.is_empty() {
            println!("{} {}: INCONCLUSIVE, generator health: {:?}", self.prop, self.tier.name(), self.unhealthy);
            return 2;
        }
        println!(
            "{} {}: held on {} cases ({} distinct non-trivial) in {:.1}s, seed {}",
            self.prop,
            self.tier.name(),
            self.evals_total,
            self.distinct_total,
            wall,
            self.seed
        );
        0
    }
}

/// Run a replayed case through a check function; prints the VIOLATION line if it still fails.
pub fn replay_case<C: serde::de::DeserializeOwned>(prop: &str, path: &str, case: &Value, check: impl Fn(&C) -> CheckResult) -> i32 {
    let c: C = match serde_json::from_value(case.clone()) {
        Ok(c) => c,
        Err(e) => {
            eprintln!("replay {}: cannot decode case: {}", path, e);
            return 2;
        }
    };
    match guarded(&check, &c) {
        Ok(_) => {
            println!("replay {}: property {} holds on this case", path, prop);
            0
        }
        Err(f) => {
            println!("VIOLATION property={} replay={}", prop, path);
            println!("  signature={}\n  {}", f.sig, f.what);
            1
        }
    }
}
