#![no_main]
//! libFuzzer target fz_eval: the decoder and the oracle live in espada_verif::fuzzdec (shared with
//! `vcheck --replay-bytes`); a failing oracle aborts so that libFuzzer saves the input.
use espada_verif::fuzzdec::run_target;
use espada_verif::runner::install_panic_hook;
use libfuzzer_sys::fuzz_target;
use std::sync::Once;

static INIT: Once = Once::new();

fuzz_target!(|data: &[u8]| {
    INIT.call_once(install_panic_hook);
    if let Err((prop, f)) = run_target("fz_eval", data) {
        eprintln!("ORACLE-FAILURE {} {} : {}", prop, f.sig, f.what);
        std::process::abort();
    }
});
