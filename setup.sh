#!/bin/bash
# Build the framework offline from files on disk only.
set -e
cd "$(dirname "$0")/harness"
export CARGO_NET_OFFLINE=true
cargo build --offline --release --bins 2>&1 | tail -3
cargo build --offline --profile dbgchk --bin c08_child --bin vcheck --bin c16_scopes 2>&1 | tail -3
cargo build --offline --profile optchk --bin c08_child 2>&1 | tail -3
# further builds: one per x86-64 micro-architecture level this CPU has (the checks skip the others)
f=$(grep -m1 '^flags' /proc/cpuinfo 2>/dev/null || true)
has() { for x in "$@"; do case " $f " in *" $x "*) ;; *) return 1;; esac; done; return 0; }
V2="cx16 lahf_lm popcnt sse4_1 sse4_2 ssse3"; V3="$V2 avx avx2 bmi1 bmi2 fma abm movbe f16c xsave"; V4="$V3 avx512f avx512bw avx512cd avx512dq avx512vl"
for lv in v2 v3 v4; do
  case $lv in v2) need=$V2;; v3) need=$V3;; v4) need=$V4;; esac
  if has $need; then
    RUSTFLAGS="-C target-cpu=x86-64-$lv" CARGO_TARGET_DIR="$PWD/target/cpu$lv" cargo build --offline --release --bin vcheck --bin c16_scopes 2>&1 | tail -1
  fi
done
