#!/bin/bash
# Build the framework offline from files on disk only.
set -e
cd "$(dirname "$0")/harness"
export CARGO_NET_OFFLINE=true
cargo build --offline --release --bins 2>&1 | tail -3
cargo build --offline --profile dbgchk --bin c08_child --bin vcheck --bin c16_scopes 2>&1 | tail -3
cargo build --offline --profile optchk --bin c08_child 2>&1 | tail -3
# third build: x86-64-v3 CPU level (only where the CPU has it; the checks skip it otherwise)
if f=$(grep -m1 '^flags' /proc/cpuinfo 2>/dev/null) && ok=1 && for x in avx2 bmi1 bmi2 fma abm movbe f16c; do case " $f " in *" $x "*) ;; *) ok=0;; esac; done && [ $ok = 1 ]; then
  RUSTFLAGS="-C target-cpu=x86-64-v3" CARGO_TARGET_DIR="$PWD/target/cpuv3" cargo build --offline --release --bin vcheck --bin c16_scopes 2>&1 | tail -3
fi
