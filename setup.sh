#!/bin/bash
# Build the framework offline from files on disk only.
set -e
cd "$(dirname "$0")/harness"
export CARGO_NET_OFFLINE=true
cargo build --offline --release --bins 2>&1 | tail -3
cargo build --offline --profile dbgchk --bin c08_child --bin vcheck --bin c16_scopes 2>&1 | tail -3
