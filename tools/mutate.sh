#!/bin/bash
# tools/mutate.sh [-t] <patch.diff> <ID> [quick|thorough]
# Sensitivity run: apply a patch to /repo's working tree, run one check, revert the tree.
#   -t  also run the repository's own test suite on the patched tree (is the mutant "realistic"?)
# Prints: MUTANT <patch> <ID>: exit=<code> [suite=pass|fail]
set -u
SUITE=0
if [ "${1:-}" = "-t" ]; then SUITE=1; shift; fi
PATCH=$(readlink -f "$1"); ID="$2"; TIER="${3:-quick}"
if [ -n "$(git -C /repo status --porcelain --untracked-files=no)" ]; then echo "/repo working tree is not clean" >&2; exit 2; fi
trap 'git -C /repo checkout -- . >/dev/null 2>&1' EXIT
git -C /repo apply "$PATCH" || { echo "patch does not apply" >&2; exit 2; }
suite=""
if [ $SUITE = 1 ]; then
  if (cd /repo && CARGO_NET_OFFLINE=true cargo test --workspace --no-fail-fast --offline >/tmp/mutate_suite.log 2>&1); then suite=" suite=pass"; else suite=" suite=FAIL"; fi
fi
# evidence of a run on a patched tree must never replace the committed evidence
out=$(cd /verif && VERIF_EVIDENCE_SUFFIX=".mutant" ./check "$ID" "$TIER" 2>&1); code=$?
rm -f /verif/evidence/*.mutant*.json
echo "$out" | grep -E "VIOLATION|signature|KNOWN|INCONCLUSIVE|held on|violation\(s\)" | head -8
echo "MUTANT $(basename "$PATCH") $ID $TIER: exit=$code$suite"
