#!/bin/bash
# tools/confirm_seed.sh <seed-dir> <worktree> <demo-file> <dest-relative-path> <demo command...>
# Confirms a seeded change in a scratch worktree: (a) suite passes with the change,
# (b) demo fails with it, (c) demo passes without it.  Writes <seed-dir>/confirm.log.
set -u
D=$(readlink -f "$1"); W="$2"; DEMO="$3"; DEST="$4"; shift 4
export CARGO_NET_OFFLINE=true RUST_BACKTRACE=0
cd "$W" || exit 2
git checkout -q -- . ; rm -f "$DEST"
log="$D/confirm.log"; : > "$log"
git apply "$D/patch.diff" || { echo "patch does not apply" | tee -a "$log"; exit 2; }
if cargo test --workspace --no-fail-fast --offline > /tmp/confirm_suite.$$ 2>&1; then a=pass; else a=FAIL; fi
grep -E "^test result" /tmp/confirm_suite.$$ | head -3 >> "$log"; rm -f /tmp/confirm_suite.$$
mkdir -p "$(dirname "$DEST")"; cp "$D/$DEMO" "$DEST"
if "$@" > /tmp/confirm_demo.$$ 2>&1; then b=pass; else b=fail; fi
grep -E "^test result|panicked|FAILED|error" /tmp/confirm_demo.$$ | head -5 >> "$log"
git checkout -q -- .
if "$@" > /tmp/confirm_demo.$$ 2>&1; then c=pass; else c=fail; fi
grep -E "^test result" /tmp/confirm_demo.$$ | head -3 >> "$log"; rm -f /tmp/confirm_demo.$$
rm -f "$DEST"
echo "CONFIRM $(basename "$D"): suite_with_change=$a demo_with_change=$b demo_without_change=$c" | tee -a "$log"
[ "$a" = pass ] && [ "$b" = fail ] && [ "$c" = pass ]
