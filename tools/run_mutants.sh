#!/bin/bash
# tools/run_mutants.sh [-t] [name-prefix]   run every mutant of /verif/mutants/INDEX.tsv against the
# quick checks expected to catch it (-t: also the repository's test suite).  Output: one line per
# (mutant, property): CAUGHT / MISSED / SILENT-OK (negative control) / ALARM (negative control failed)
cd /verif
T=""; if [ "${1:-}" = "-t" ]; then T="-t"; shift; fi
PFX="${1:-}"
while IFS=$'\t' read -r name props; do
  case "$name" in "$PFX"*) ;; *) continue;; esac
  if [ "$props" = "-" ]; then
    for p in ${NEG_PROPS:-C10}; do
      out=$(tools/mutate.sh $T mutants/$name.diff $p quick 2>&1 | tail -1)
      code=$(echo "$out" | sed -n 's/.*exit=\([0-9]*\).*/\1/p')
      [ "$code" = "0" ] && v="SILENT-OK" || v="ALARM"
      echo "$v $name $p ($out)"
    done
    continue
  fi
  first=1
  for p in ${props//,/ }; do
    tt=""; [ $first = 1 ] && tt="$T"; first=0
    out=$(tools/mutate.sh $tt mutants/$name.diff $p quick 2>&1 | tail -1)
    code=$(echo "$out" | sed -n 's/.*exit=\([0-9]*\).*/\1/p')
    case "$code" in 1) v="CAUGHT";; 0) v="MISSED";; *) v="OTHER($code)";; esac
    echo "$v $name $p ($out)"
  done
done < mutants/INDEX.tsv
