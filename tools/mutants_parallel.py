#!/usr/bin/env python3
"""tools/mutants_parallel.py [-k WORKERS] [--suite] [--tier quick] [--only PREFIX] [--seeded]
Runs patches against the checks in K scratch sandboxes under /tmp/mw/<k>/ (a git worktree of /repo
HEAD + an rsync copy of /verif whose espada-src symlink points at that worktree), so neither /repo
nor /verif is touched and several mutants run at once.  Writes /verif/mutants/RESULTS.tsv (or
/verif/seeded/RESULTS.tsv with --seeded): one line per (patch, property).
Sandboxes are removed at the end (worktrees included)."""
import argparse, json, os, re, subprocess, sys, threading, queue, shutil, time

ap = argparse.ArgumentParser()
ap.add_argument("-k", type=int, default=4)
ap.add_argument("--suite", action="store_true")
ap.add_argument("--tier", default="quick")
ap.add_argument("--only", default="")
ap.add_argument("--seeded", action="store_true")
ap.add_argument("--keep", action="store_true")
ap.add_argument("--seed", default="0")
a = ap.parse_args()
ROOT = "/tmp/mw/%d" % os.getpid()
ENV = dict(os.environ, CARGO_NET_OFFLINE="true", RUST_BACKTRACE="0", VERIF_SEED=a.seed)
ENV.pop("VERIF_DIR", None)

def sh(cmd, cwd=None, env=None, timeout=None):
    return subprocess.run(cmd, cwd=cwd, env=env or ENV, shell=isinstance(cmd, str), capture_output=True, text=True, timeout=timeout)

jobs = []
if a.seeded:
    for d in sorted(os.listdir("/verif/seeded")):
        mp = "/verif/seeded/%s/meta.json" % d
        if not os.path.exists(mp) or not re.match(a.only, d):
            continue
        m = json.load(open(mp))
        jobs.append((d, "/verif/seeded/%s/patch.diff" % d, [m["breaks_property"]] + m.get("also_run", [])))
    out_path = "/verif/seeded/RESULTS.tsv" + (".partial" if a.only else "")
else:
    for l in open("/verif/mutants/INDEX.tsv"):
        name, props = l.rstrip("\n").split("\t")
        if not re.match(a.only, name):
            continue
        jobs.append((name, "/verif/mutants/%s.diff" % name, props.split(",")))
    out_path = "/verif/mutants/RESULTS.tsv" + (".partial" if a.only else "")

def setup(k):
    w = "%s/%d" % (ROOT, k)
    if os.path.exists(w + "/repo"):
        sh(["git", "-C", "/repo", "worktree", "remove", "--force", w + "/repo"])
    shutil.rmtree(w, ignore_errors=True)
    os.makedirs(w)
    r = sh(["git", "-C", "/repo", "worktree", "add", "-q", "--detach", w + "/repo", "HEAD"])
    assert r.returncode == 0, r.stderr
    # the COMMITTED state of /verif (edits in progress must not leak into a run), plus the
    # build cache for a warm start
    os.makedirs(w + "/verif")
    r = sh("git -C /verif archive HEAD | tar -x -C %s/verif" % w)
    assert r.returncode == 0, r.stderr
    sh("rsync -a --exclude 'build.*.log' /verif/harness/target/ %s/verif/harness/target/" % w)
    if os.path.lexists(w + "/verif/espada-src"):
        os.remove(w + "/verif/espada-src")
    os.symlink(w + "/repo", w + "/verif/espada-src")
    return w

results = []
lock = threading.Lock()
q = queue.Queue()
for j in jobs:
    q.put(j)

def worker(k):
    w = setup(k)
    env = dict(ENV, VERIF_DIR=w + "/verif")
    while True:
        try:
            name, patch, props = q.get_nowait()
        except queue.Empty:
            break
        sh(["git", "checkout", "-q", "--", "."], cwd=w + "/repo")
        r = sh(["git", "apply", patch], cwd=w + "/repo")
        if r.returncode != 0:
            with lock:
                results.append((name, "-", "PATCH-FAILS", "", ""))
            continue
        suite = ""
        if a.suite:
            r = sh("cargo test --workspace --no-fail-fast --offline", cwd=w + "/repo", timeout=3600)
            suite = "suite=pass" if r.returncode == 0 else "suite=FAIL"
        for p in props:
            neg = p.startswith("-")   # negative control: the check must stay silent
            p = p.lstrip("-")
            t0 = time.time()
            r = sh(["./check", p, a.tier], cwd=w + "/verif", env=env, timeout=7200)
            sig = [l.strip() for l in r.stdout.splitlines() if "signature=" in l]
            if not neg:
                verdict = {1: "CAUGHT", 0: "MISSED"}.get(r.returncode, "OTHER(%d)" % r.returncode)
            else:
                verdict = {0: "SILENT-OK"}.get(r.returncode, "ALARM(%d)" % r.returncode)
            with lock:
                results.append((name, p, verdict, suite, (sig[0] if sig else "")[:140]))
                print("%-10s %-40s %s %s %.0fs %s" % (verdict, name, p, suite, time.time() - t0, (sig[0] if sig else "")[:90]), flush=True)
        sh(["git", "checkout", "-q", "--", "."], cwd=w + "/repo")
    if not a.keep:
        sh(["git", "-C", "/repo", "worktree", "remove", "--force", w + "/repo"])
        shutil.rmtree(w, ignore_errors=True)

ts = [threading.Thread(target=worker, args=(k,)) for k in range(a.k)]
for t in ts:
    t.start()
for t in ts:
    t.join()
sh(["git", "-C", "/repo", "worktree", "prune"])
results.sort()
with open(out_path, "w") as f:
    f.write("# patch\tproperty\tverdict\trepository suite\tfirst signature   (tier=%s seed=%s)\n" % (a.tier, a.seed))
    for r in results:
        f.write("\t".join(r) + "\n")
bad = [r for r in results if r[2] not in ("CAUGHT", "SILENT-OK")]
print("wrote", out_path, "-", len(results), "rows,", len(bad), "not caught / not silent")
