#!/usr/bin/env python3
"""Generates the sensitivity mutants of DESIGN.md section 4 as patches under /verif/mutants/.
Each entry: (name, [properties expected to catch it], file, old, new[, count]).  The patches are
made against /repo HEAD by textual replacement; /repo is left clean."""
import subprocess, sys, os, re
R = "/repo"
FE = "src/evaluator/flop_exhaustive.rs"
SD = "src/evaluator/showdown.rs"
MH = "src/evaluator/made_hand.rs"
HT = "src/hand_range/hand_range_token.rs"
HR = "src/hand_range/hand_range.rs"
CP = "src/hand_range/card_pair.rs"
CA = "src/card/card.rs"
RK = "src/card/rank.rs"
RR = "src/card/rank_range.rs"
SR = "src/card/suit_range.rs"
RP = "src/hand_range/rank_pair.rs"
SC = "examples/multi-thread/scope.rs"

M = [
 # ---- C01 / C07 / C11
 ("c01_flush_scan_noop_NEG", ["-C01", "-C07"], MH,
  "        if suit_counts[suit_index] >= 5 {\n            return Some(*suit);\n        }",
  "        if suit_counts[suit_index] >= 5 {\n            return Some(*suit);\n        }\n        if suit_counts[suit_index] == 4 && cards.iter().filter(|c| c.suit() == suit).count() == 4 {\n            continue;\n        }"),  # harmless variant (must stay silent): semantic no-op
 ("c01_flush_mask_first5_only", ["C01"], MH,
  "    for card in cards.iter() {\n        if card.suit() == suit {\n            hash += match card.rank() {",
  "    let mut seen = 0;\n    for card in cards.iter() {\n        if card.suit() == suit {\n            seen += 1;\n            if seen > 5 {\n                continue;\n            }\n            hash += match card.rank() {"),
 ("c01_flush_ignores_clubs", ["C01", "C11", "C03"], MH,
  "        if suit_counts[suit_index] >= 5 {", "        if suit_counts[suit_index] >= 5 && suit_index != 3 {"),
 ("c01_flush_threshold_6", ["C01"], MH,
  "        if suit_counts[suit_index] >= 5 {", "        if suit_counts[suit_index] >= 6 {"),
 ("c01_partialord_reversed", ["C01"], MH,
  "self.power_index().partial_cmp(&other.power_index())", "other.power_index().partial_cmp(&self.power_index())"),
 ("c07_bound_quads", ["C07"], MH, "            11..=166 => MadeHandType::Quads,\n            167..=322", "            11..=165 => MadeHandType::Quads,\n            166..=322"),
 ("c07_bound_pair", ["C07"], MH, "            3326..=6185 => MadeHandType::Pair,", "            3326..=6186 => MadeHandType::Pair,"),
 ("c07_swap_arms", ["C07"], MH, "            1600..=1609 => MadeHandType::Straight,\n            1610..=2467 => MadeHandType::Trips,", "            1600..=1609 => MadeHandType::Trips,\n            1610..=2467 => MadeHandType::Straight,"),
 # ---- C02 / C04 / C08
 ("c02_reset_fill_dropped", ["C02", "C04"], FE,
  "                self.current_river_index += 1;\n                self.current_player_indexes.fill(0);", "                self.current_river_index += 1;"),
 ("c02_carry_off_by_one", ["C02"], FE,
  "for i in (player_index_to_increment + 1)..self.current_player_indexes.len()", "for i in (player_index_to_increment + 2)..self.current_player_indexes.len()"),
 ("c02_probability_skips_player0", ["C02"], FE,
  "                probability *= entry.1;", "                if player_index > 0 || self.player_entries.len() == 1 {\n                    probability *= entry.1;\n                }"),
 ("c02_river_lt_47", ["C02", "C04"], FE, "if self.current_river_index < 48 {", "if self.current_river_index < 47 {"),
 ("c02_used_insert_removed", ["C02", "C10"], FE,
  "                self.current_used_cards.insert(entry.0[0]);\n                self.current_used_cards.insert(entry.0[1]);\n", ""),
 ("c02_u8_digit_again", ["C02", "C11"], FE,
  "if self.current_player_indexes[ri] + 1 < self.player_entries[ri].len() {", "if (self.current_player_indexes[ri] as u8) < (self.player_entries[ri].len() as u8).wrapping_sub(1) {"),
 ("c04_stop_or", ["C04"], FE,
  "if self.current_turn_index >= self.turn_to && self.current_river_index >= self.river_to", "if self.current_turn_index >= self.turn_to || self.current_river_index >= self.river_to"),
 ("c04_stop_gt", ["C04"], FE,
  "if self.current_turn_index >= self.turn_to && self.current_river_index >= self.river_to", "if self.current_turn_index >= self.turn_to && self.current_river_index > self.river_to"),
 ("c04_start_river_plus1", ["C04"], FE,
  "            current_river_index: evaluator.river_from,", "            current_river_index: if evaluator.river_from < 48 && evaluator.turn_from > 0 { evaluator.river_from + 1 } else { evaluator.river_from },"),
 ("c04_rollover_plus2", ["C04", "C02"], FE,
  "self.current_river_index = self.current_turn_index + 1;", "self.current_river_index = (self.current_turn_index + 2).min(48);"),
 ("c08_empty_guard_removed", ["C08", "C09"], FE,
  "        if self.player_entries.iter().any(|entries| entries.is_empty()) {\n            return None;\n        }\n\n", ""),
 ("c08_recursion_again", ["C08"], FE,
  "                if showdown.is_some() {\n                    return showdown;\n                }\n\n                continue;\n            }\n\n            if self.current_river_index < 48 {",
  "                return showdown.or_else(|| self.next());\n            }\n\n            if self.current_river_index < 48 {"),
 # ---- C03
 ("c03_le_to_lt", ["C03", "C11"], SD, "            if power_index <= strongest_index {\n                if power_index < strongest_index {", "            if power_index < strongest_index {\n                if power_index < strongest_index {"),
 ("c03_clear_removed", ["C03", "C11"], SD, "                    winner_indexes.clear();\n", ""),
 ("c03_winner_len_counts_players", ["C03", "C11"], SD, "            if player.win {\n                len += 1;\n            }", "            let _ = player;\n            len += 1;"),
 ("c03_collision_first_card_only", ["C03"], SD, "if board.contains(&player[0]) || board.contains(&player[1]) {", "if board.contains(&player[0]) {"),
 # ---- C05
 ("c05_regex_missing_T", ["C05"], HT, 'Regex::new(r"^[AKQJT98765432]{2}[so]\\+', 'Regex::new(r"^[AKQJ98765432]{2}[so]\\+'),
 ("c05_plus_includes_highcard", ["C05", "C06"], HT,
  "                RankPair::Suited(high, kicker) => {\n                    RankRange::inclusive(high.next().unwrap(), kicker)", "                RankPair::Suited(high, kicker) => {\n                    RankRange::inclusive(high.next().unwrap().next().unwrap_or(kicker).min(kicker), kicker)"),
 ("c05_span_exclusive", ["C05", "C06"], HT,
  "                RankPair::Ofsuit(high, kicker) => RankRange::inclusive(kicker, end)", "                RankPair::Ofsuit(high, kicker) => RankRange::new(kicker, end)"),
 ("c05_first_wins", ["C05"], HR, "                    map.insert(card_pair, prob);", "                    map.entry(card_pair).or_insert(prob);"),
 ("c05_spaces_not_stripped", ["C05"], HR, 'let trimmed = s.replace(" ", "");', 'let trimmed = s.trim().to_string();'),
 ("c05_suited_offsuit_swapped_single", ["C05"], HT,
  "                if &s[2..3] == \"s\" {\n                    return Ok(HandRangeToken::new(\n                        HandRangeTokenKind::SingleRankPair(RankPair::Suited(high, kicker)),",
  "                if &s[2..3] == \"o\" {\n                    return Ok(HandRangeToken::new(\n                        HandRangeTokenKind::SingleRankPair(RankPair::Suited(high, kicker)),"),
 # ---- C06 / C17
 ("c06_weight_3_decimals", ["C06"], HT, 'res.and(write!(f, ":{}", self.probability))', 'res.and(write!(f, ":{:.3}", self.probability))'),
 ("c06_orphan_skips_same_suit", ["C06", "C17"], HR,
  "                        let probability = orphan_card_pairs.get(&pair);\n", "                        let probability = orphan_card_pairs.get(&pair).filter(|_| high_suit != kicker_suit || high_rank != Rank::Seven);\n"),
 ("c17_run_not_closed_on_weight_change", ["C17", "C06"], HR,
  "                if probability.is_none() || probability.unwrap_or(&0_f32) != start_probability {\n                    let prev_rank = rank.prev().unwrap();",
  "                if probability.is_none() {\n                    let prev_rank = rank.prev().unwrap();"),
 ("c17_iterates_hashmap_for_orphans", ["C17"], HR,
  "        for high_rank in RankRange::all() {\n            for kicker_rank in RankRange::inclusive(high_rank, Rank::Deuce) {",
  "        for (pair, probability) in orphan_card_pairs.iter() {\n            tokens.push(HandRangeToken::new(HandRangeTokenKind::SingleCardPair(*pair), *probability));\n        }\n        for high_rank in RankRange::new(Rank::Ace, Rank::Ace) {\n            for kicker_rank in RankRange::inclusive(high_rank, Rank::Deuce) {"),
 # ---- C12
 ("c12_all_to_any", ["C12", "C06", "C17"], HR,
  "                    if suited\n                        .into_iter()\n                        .all(|cp|", "                    if suited\n                        .into_iter()\n                        .any(|cp|"),
 ("c12_presence_only", ["C12", "C06", "C17"], HR,
  "                    if ofsuit\n                        .into_iter()\n                        .all(|cp| self.0.get(&cp).is_some_and(|p| p == probability))", "                    if ofsuit\n                        .into_iter()\n                        .all(|cp| self.0.get(&cp).is_some())"),
 ("c12_offsuit_list_missing_one", ["C12", "C05"], RP,
  "                CardPair::new(Card::new(high, Suit::Club), Card::new(kicker, Suit::Heart)),\n", ""),
 # ---- C09 / C10
 ("c09_card_boundary_check_removed", ["C09"], CA, "if v.len() == 2 && v.is_char_boundary(1) {", "if v.len() == 2 {"),
 ("c09_order_guard_removed", ["C09"], HT, "                if high < kicker_bottom {\n                    if &s[2..3] == \"s\" {", "                if high != kicker_bottom {\n                    if &s[2..3] == \"s\" {"),
 ("c10_weight_class_widened", ["C10"], HT, "1(\\.0+)?))?$\"", "1(\\.[0-9]+)?))?$\"", 7),
 ("c10_same_card_guard_removed", ["C10"], CP, "            (Ok(l), Ok(r)) if l == r => Err(Self::Err::InvalidCardStr(value.to_string())),\n", ""),
 ("c10_unwrap_or_2", ["C10", "C05"], HT, "f32::from_str(value).unwrap_or(1.0)", "f32::from_str(value).unwrap_or(2.0)"),  # default weight of every token without a literal
 # ---- C13 / C14
 ("c13_mask_bit", ["C13"], CA, "const KING_MASK: u64 = 0b0000000000000000000000000000000000000000000011110000;", "const KING_MASK: u64 = 0b0000000000000000000000000000000000000000000111100000;"),
 ("c13_next_arms", ["C13", "C05"], RK, "            Rank::Nine => Some(Rank::Eight),\n            Rank::Eight => Some(Rank::Seven),", "            Rank::Nine => Some(Rank::Seven),\n            Rank::Eight => Some(Rank::Seven),"),
 ("c13_suitrange_all_end3", ["C13", "C02"], SR, "            end: SUITS.len(),", "            end: SUITS.len() - 1,"),
 ("c14_display_second_first_NEG", ["-C14", "-C17", "-C05"], CP, 'write!(f, "{}{}", self.0, self.1)', 'write!(f, "{}{}", self.1, self.0)'),  # negative control: the text still parses back (C14), stays a function of the contents (C17), either card order is valid notation (C05); only the repository suite pins the order
 ("c14_no_normalisation_same_rank", ["C14"], CP, "        if left > right {", "        if left.rank() > right.rank() {"),
 # ---- C15
 ("c15_static_deck_cache", ["C15"], FE,
  "        Self {\n            turn_to: evaluator.turn_to,",
  "        static CACHE: std::sync::Mutex<Option<Vec<Card>>> = std::sync::Mutex::new(None);\n        let current_deck: Vec<Card> = {\n            let mut g = CACHE.lock().unwrap();\n            if g.is_none() {\n                *g = Some(current_deck);\n            }\n            g.as_ref().unwrap().clone()\n        };\n\n        Self {\n            turn_to: evaluator.turn_to,"),
 # ---- C16
 ("c16_ceil_to_round_NEG", ["-C16"], SC, "(x % 1.0)).ceil() as u8", "(x % 1.0)).round() as u8"),
 ("c16_normalisation_removed", ["C16"], SC, "        if river_to > 48 && turn_to < 48 {", "        if river_to > 49 && turn_to < 48 {"),
 ("c16_prev_r_not_updated", ["C16"], SC, "        prev_r = river_to;", "        prev_r = river_to.max(prev_r);"),
]

def sh(*a, **k):
    return subprocess.run(a, cwd=R, capture_output=True, text=True, **k)

def main():
    if sh("git", "status", "--porcelain", "--untracked-files=no").stdout.strip():
        sys.exit("/repo is not clean")
    os.makedirs("/verif/mutants", exist_ok=True)
    table = []
    for m in M:
        name, props, f, old, new = m[:5]
        cnt = m[5] if len(m) > 5 else 1
        p = os.path.join(R, f)
        s = open(p).read()
        if s.count(old) != cnt:
            print("SKIP %s: pattern found %d times (expected %d)" % (name, s.count(old), cnt))
            continue
        open(p, "w").write(s.replace(old, new))
        d = sh("git", "diff").stdout
        sh("git", "checkout", "--", ".")
        open("/verif/mutants/%s.diff" % name, "w").write(d)
        table.append((name, props))
    # hand-written multi-hunk mutants: mutants/handwritten/<name>.diff, properties in the first line
    # of <name>.props
    hw = "/verif/mutants/handwritten"
    for fn in sorted(os.listdir(hw)) if os.path.isdir(hw) else []:
        if fn.endswith(".diff"):
            name = fn[:-5]
            import shutil
            shutil.copy(os.path.join(hw, fn), "/verif/mutants/%s.diff" % name)
            table.append((name, open(os.path.join(hw, name + ".props")).read().split()))
    with open("/verif/mutants/INDEX.tsv", "w") as f:
        for n, p in table:
            f.write("%s\t%s\n" % (n, ",".join(p)))
    print("wrote", len(table), "mutants")

main()
