#!/usr/bin/env python3
"""tools/import_seed.py <name> <property> <demo-run-command> <needs-to-manifest text>
Copies /tmp/seeded_out/<name>/ into /verif/seeded/<name>/ and writes meta.json (outcome filled later)."""
import sys, os, shutil, json
name, prop, run, need = sys.argv[1:5]
src = "/tmp/seeded_out/" + name
dst = "/verif/seeded/" + name
os.makedirs(dst, exist_ok=True)
for f in os.listdir(src):
    p = os.path.join(src, f)
    if os.path.isfile(p) and os.path.getsize(p) < 200000:
        shutil.copy(p, dst)
demo = [f for f in os.listdir(dst) if f.endswith(".rs")][0]
conf = open(os.path.join(dst, "confirm.log")).read().strip().splitlines()[-1]
head = os.popen("git -C /repo rev-parse --short HEAD").read().strip()
meta = {"id": name, "breaks_property": prop,
        "origin": "independent sub-agent given only the property record (round 2: plus a one-line description of the round-1 change to avoid) and a scratch worktree of /repo HEAD (%s)" % head,
        "needs_to_manifest": need,
        "demonstration": {"file": demo, "place_at": "tests/" + demo, "run": run},
        "confirmed_by_me": {"how": "tools/confirm_seed.sh in the scratch worktree: suite with change / demo with change / demo without change", "result": conf},
        "checks_run": "tools/mutants_parallel.py --seeded (sandbox copy of /repo + /verif; same effect as git -C /repo apply; ./check; git -C /repo checkout -- .)",
        "outcome": "pending"}
json.dump(meta, open(os.path.join(dst, "meta.json"), "w"), indent=1)
print("imported", name)
