#!/usr/bin/env python3
"""Validate MANIFEST.json and every evidence file against the schemas in /root/.vp (dev aid)."""
import json, sys, glob
try:
    import jsonschema
except ImportError:
    sys.exit("run with python3-vt (jsonschema is in the tooling venv)")
ok = True
def check(path, schema):
    global ok
    try:
        jsonschema.validate(json.load(open(path)), json.load(open(schema)))
        print("ok   ", path)
    except Exception as e:
        ok = False
        print("FAIL ", path, str(e).splitlines()[0])
check("/verif/MANIFEST.json", "/root/.vp/MANIFEST.schema.json")
for f in sorted(glob.glob("/verif/evidence/*.json")):
    check(f, "/root/.vp/EVIDENCE.schema.json")
man = json.load(open("/verif/MANIFEST.json"))
props = [json.loads(l)["id"] for l in open("/verif/properties.jsonl")]
claimed = [c["property_id"] for c in man["checks"]]
na = [c["property_id"] for c in man.get("not_applicable", [])]
for p in props:
    if (p in claimed) == (p in na):
        ok = False
        print("FAIL  property", p, "must be either claimed or not_applicable")
sys.exit(0 if ok else 1)
