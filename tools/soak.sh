#!/bin/bash
# tools/soak.sh <tier> <seed>...     run every registered check of MANIFEST.json from a fresh process
# for each seed on the current tree; prints one line per (property, seed) and a summary.
# Any non-zero exit on the unchanged tree must be investigated (DESIGN.md section 7).
cd /verif
TIER="${1:-quick}"; shift
SEEDS="${*:-1 2 3}"
IDS=$(python3 -c "import json;print(' '.join(c['property_id'] for c in json.load(open('MANIFEST.json'))['checks']))")
bad=0
for s in $SEEDS; do
  for p in $IDS; do
    t0=$(date +%s.%N)
    out=$(VERIF_SEED=$s ./check $p $TIER 2>&1); code=$?
    t1=$(date +%s.%N)
    printf "%s seed=%s tier=%s exit=%s %.1fs\n" "$p" "$s" "$TIER" "$code" "$(echo "$t1 - $t0" | bc)"
    if [ $code != 0 ]; then bad=$((bad+1)); echo "$out" | grep -E "VIOLATION|INCONCLUSIVE|signature|panic" | head -5; fi
  done
done
echo "soak: $bad non-zero exits"
[ $bad = 0 ]
