#!/usr/bin/env python3
"""Regenerates /verif/MANIFEST.json from the table below (single source of truth for the
registered commands).  Properties without a built check are listed under not_applicable with
the reason 'not built yet' while the framework is under construction."""
import json

BUILT = {
 "C01": dict(
   technique="exhaustive enumerating generator over all C(52,7) sets + proptest targeted sets/pairs, differential against a from-the-rules best-of-21 reference classifier",
   category="exploration",
   text="Every one of the 133,784,560 seven-card sets is generated (both tiers) and evaluated in ascending, descending, flush-scan-adversarial and seeded shuffled orders against the class of the best of its 21 five-card subsets under an independent classifier; all 5,040 orders for a sample; 2M/20M hand pairs (shared boards, mirrored hole cards for ties) check ==,<,partial_cmp,cmp against poker order. Long call histories on one thread (forty hands, filler hands, one related hand per first hand, related calls 2^8, 2^16 or 2^24 +-2 calls apart) check that an answer does not depend on earlier calls. Exhaustive over sets, sampled over orders.",
   note="Trusted: the harness's 5-card classifier (two implementations cross-checked on all 2,598,960 hands; 7,462 classes and per-category counts asserted at start-up). Orders: all 7! only for sampled sets.",
   ref="DESIGN.md section 4 (C01)"),
 "C02": dict(
   technique="proptest structured generation + reference enumeration model (multiset equality both ways); thorough: coverage-guided libFuzzer target fz_eval with the same model as oracle",
   category="exploration",
   text="Generated (flop, 1-6 ranges) configurations - card-pool ranges with frequent player-player blocking, ranges overlapping the flop, identical ranges, sizes 1..1326 including 255/256/257 and >255 beside narrow ranges - are drained and compared as multisets with an independent enumeration of all legal deals: nothing missing, nothing extra, nothing twice; board layout, hole cards per seat and probability are checked per showdown (for <= 4 players the reported f32 must be one of the values some order/association of the multiplications gives, for one player the weight itself; weights include neighbouring f32 values and tiny values). A second stream takes a prefix of configurations far too large to drain (3 ranges of up to 1326 combos, > 2^32 slots): legality, order, first position, count. Every drained configuration is also consumed through nth() with mixed step widths and one of skip().step_by(), count()+last(), collect()/for_each(), each compared element by element with the next() sequence; size_hint() is asked before every next(). Sampled; a cost budget bounds what is drained completely.",
   note="Trusted: the harness's enumeration model (evalmodel.rs). Probability for more than 4 players is compared within (n+1) f32 roundings because the statement fixes the value, not the multiplication order. Weights from {0} U [2^-10,1] (down to 2^-24 with <= 4 players).",
   ref="DESIGN.md section 4 (C02)"),
 "C03": dict(
   technique="proptest structured generation (board archetypes, mirrored hole cards) + reference-class oracle",
   category="exploration",
   text="1.7M (quick) / 45M (thorough) generated tables of 1-23 players on category-targeted boards with mirrored and rank-sharing hole cards (two-way, multi-way and everybody-ties patterns each a measured share of cases), plus injected board collisions; winners must be exactly the players whose reference class (best of 21) is the table minimum, winner_len the flagged count, players/cards/probability as given.",
   note="Trusted: the reference classifier of C01. Hole cards colliding with each other are outside the statement and not generated.",
   ref="DESIGN.md section 4 (C03)"),
 "C04": dict(
   technique="exhaustive enumeration of all (from,to) windows for fixed configurations + proptest model-based histories (scope calls, chains) against the unscoped run and against the enumeration model; thorough: coverage-guided libFuzzer target fz_eval",
   category="exploration",
   text="For 2 (quick) / 6 (thorough) fixed configurations every one of the 693,253 ordered windows from <= to over the 1177 positions is generated and the scoped run compared, position by position, with the unscoped run's window, with three further next() calls after exhaustion. Generated histories over small random configurations add repeated scope() calls (last wins), windows biased to row edges/terminal/empty, chains of 0-63 cuts whose concatenation must equal the full run, short windows compared directly with the enumeration model restricted to the window, and prefixes of windows over configurations too large to drain (> 2^32 odometer slots). The scoped runs of the histories are also consumed through nth()/skip()/step_by()/count()/last()/collect() and compared with their next() sequence. Half of the chains build every link's iterator before the first is drained and keep an evaluator on another flop alive on the thread meanwhile.",
   note="Trusted: the unscoped run of the same build as reference (C02 decides that it is the right enumeration); 64-bit showdown fingerprints. Only valid positions with from <= to are generated.",
   ref="DESIGN.md section 4 (C04)"),
 "C05": dict(
   technique="exhaustive enumeration of all 3,796 well-formed tokens x weight literals + proptest token lists, differential against an independent notation model",
   category="exploration",
   text="Every well-formed token (all ranks, rank pairs in either order, spans, ordered card pairs) x 8 (quick) / 19 (thorough) weight literals - among them literals a hair off the midpoint of two neighbouring f32 values - must parse and expand to exactly the combo set the model derives from the poker meaning of the notation, each combo once, at the literal's value; generated lists of 0-12/40 tokens over a small rank palette (frequent overlaps with different weights), optional spaces, the empty and all-space strings, lists of up to 320 tokens and lists that first cover all 1326 combos and then override parts must parse to the model's sequential-insert map with bit-identical weights and one entry per combo. Generated literals include exact f32 midpoints moved a hair up or down (45-50 digits). Long parse histories on one thread (related texts 255-257 and 65,534-65,537 parses apart) check independence of earlier parses.",
   note="Trusted: the harness's token AST/expander (notation.rs) and std's f32 parser for literal values. Lists are sampled.",
   ref="DESIGN.md section 4 (C05)"),
 "C06": dict(
   technique="proptest row-pattern generation + exhaustive row sweeps + exhaustive token set, round-trip oracle (format -> parse, bit-identical)",
   category="exploration",
   text="Ranges built by row-pattern construction over the 169 rank-pair cells (complete at up to three weights, partial cells, weights incl. arbitrary f32 bit patterns in [0,1] and subnormals), every absent/a/b pattern of every row with <= 7 cells (thorough: every row, 3.2M ranges), and every well-formed token x weights are formatted and parsed back; the result must be equal with bit-identical weights. In two of three cases a formatting call of another range into a sink that fails after a few bytes precedes on the same thread. Long formatting histories (about 2^8 / 2^16 other ranges formatted between a range and its one-combo neighbour) must still round-trip.",
   note="-0.0 and NaN are outside the weight domain. The 2^1326 space is sampled except for the row sweeps.",
   ref="DESIGN.md section 4 (C06)"),
 "C07": dict(
   technique="exhaustive enumerating generator over all C(52,7) sets + directed category-boundary cases, oracle = category of the reference best-of-21 class",
   category="exploration",
   text="All 133,784,560 sets (hence all 4,824 reachable power indexes) plus the strongest and weakest reachable hand of every category are generated; the Debug name of hand_type() must equal the category of the best five-card hand under the independent classifier; call histories (every reachable index right after a call for every category's boundary hands) check that the answer does not depend on the previous call. Long histories (related calls 2^8, 2^16, 2^24 +-2 calls apart) extend that to counters that wrap.",
   note="Trusted: the harness's 5-card classifier (self-checked). The category enum is only reachable through its Debug output.",
   ref="DESIGN.md section 4 (C07)"),
 "C08": dict(
   technique="proptest structured generation + child-process execution on a 2 MiB thread in two build profiles (crash/panic/over-production oracle)",
   category="exploration",
   text="Generated configurations aimed at the failure modes the statement names (longest blocked runs inside a window, sizes 0/1/255/256/257/511/512/513/1326, empty ranges at any seat also beside ranges whose sizes multiply past 2^32/2^64, all-blocked ranges, 7-300 players, full drains) are drained in a child process on a 2 MiB thread, once in a release and once in a debug-profile build of espada; any panic, signal (stack overflow), over-production, or output with an empty range is a violation. Runs of 1.4e8-1.6e8 odometer slots (thorough: 8e9, beyond 2^32) of blocked deals go through an optimised build with overflow checks (counters that overflow only after 2^27 or 2^32 deals). The child consumes the iterator in one of four ways chosen by the configuration (for loop, size_hint() before every next(), collect(), nth() with steps 0-3); full tables of 6-12 ranges of 100-1000 combos (size product beyond 2^64, no empty seat) are asked for size_hint() and their first five showdowns.",
   note="Trusted: the OS reporting the child's death; an infinite silent loop can only hit the watchdog (exit 2). Debug profile = espada at opt-level 0 with overflow checks and debug assertions, dependencies optimised.",
   ref="DESIGN.md section 4 (C08)"),
 "C09": dict(
   technique="exhaustive short-string and token-shape enumeration + proptest mutation/junk/over-long generators, crash oracle (catch_unwind) with follow-up use of every parsed value",
   category="exploration",
   text="Every string of length <= 3 (thorough 4) over the notation alphabet extended by 2-, 3- and 4-byte characters, every string matching one of the seven token shapes with arbitrary ranks (and all 52x52 card-pair texts), plus generated mutated notation, mixed junk lists, every single/double substitution of a notation character by a Unicode look-alike (digits of other scripts, full-width forms, Kelvin sign, long s), arbitrary Unicode, weight literals and over-long inputs (lengths around powers of two) go through all six parsers under catch_unwind; every Ok value is formatted, expanded, decomposed and drained through the evaluator (to the very end, beside other players, at non-adjacent seats). size_hint() is asked before, during and after every drain, and a full table of ten and of six copies of each parsed range is built and asked for its size hint. Every parsed value is also formatted through eleven width/alignment/fill/precision specifications (only 'returns' is demanded). Any panic is a violation. A libFuzzer target with the same oracle extends the thorough tier.",
   note="Totality over all strings cannot be established by testing; the finite slices named by the property are covered completely. Evaluator hand-off is restricted to the first positions (cost).",
   ref="DESIGN.md section 4 (C09)"),
 "C10": dict(
   technique="same string generators as C09 + exhaustive weight-literal grammar up to 3 digits, invariant oracle over parsed values and over showdowns computed from them",
   category="exploration",
   text="For every Ok card pair / token / range obtained from the generated strings (all token-shape strings incl. equal-card pairs, every literal [01](.d{1,3})? on each token shape, generated long literals, numbers in other notations after the colon - percent, exponent, sign, suffix, fraction, radix, values inside and outside [0,1] -, mutated notation, junk lists) each combo must have two different cards and a weight in [0,1]; evaluator runs over the parsed ranges must yield probabilities in [0,1] and no duplicate card.",
   note="Panics are C09's subject and skipped here. Weight literals beyond 3 fraction digits are sampled.",
   ref="DESIGN.md section 4 (C10)"),
 "C11": dict(
   technique="proptest metamorphic testing (suit relabelling, player permutation) over integer win/tie tallies",
   category="exploration",
   text="Generated suit-asymmetric configurations (flush-prone flops, single-suit ranges, pools, a mirrored player for ties, >255-combo ranges beside narrow ones) are evaluated three times (in half of the cases with all three enumerations alive side by side on one thread, their next() calls taken in turn): as given, with one of the 23 non-identity suit permutations applied to flop and ranges, and with the players permuted; integer tallies wins[player][k-way] must be equal resp. permuted, and in every showdown flagged winners == winner_len >= 1. A further stream uses three players whose weights are constructed so that the f32 product depends on the multiplication order around natural thresholds, in all six player orders. Thorough adds all 24 relabellings for a sample.",
   note="Trusted: nothing beyond the relation itself (no reference evaluator is involved); category lookup for the non-triviality rule uses the harness's class table.",
   ref="DESIGN.md section 4 (C11)"),
 "C12": dict(
   technique="exhaustive pattern enumeration inside one rank pair + proptest almost-complete patterns, differential against a split model",
   category="exploration",
   text="Every absent/weight-a/weight-b pattern of the combos of a rank pair - all 3^6 x 13 pockets, 3^4 x 78 suited, 3^12 x 6 (quick) / 78 (thorough) offsuit - in a background of neighbouring rank pairs (also with +0.0/-0.0 as the two weights), biased almost-complete offsuit patterns over all 78 pairs with arbitrary weights, and row-pattern ranges: rank_pairs() must equal the model's complete cells in both directions with bit-equal weights, orphan_card_pairs() the model's leftovers, and every combo be covered exactly once. Long per-thread histories (a rank pair queried complete, about 240 or about 65,510 unrelated queries, then 48 queries of the pair with one combo missing) cover dependence on earlier calls, including wrap points of 8- and 16-bit call counters. Ranges with about 300 distinct weights (every rank pair its own) are included.",
   note="Trusted: the harness's cell/split model. Weights finite and non-negative; -0.0 is the same weight as +0.0 (f32 equality).",
   ref="DESIGN.md section 4 (C12)"),
 "C13": dict(
   technique="exhaustive enumerating generator + model oracle (round trips, order/numbering model)",
   category="exploration",
   text="Complete enumeration of the finite domain the property names (52 cards, 52 bit words, all ASCII strings of length <= 2 (quick) / <= 3 (thorough), all rank/suit pairs and ordered range endpoints) against an independent numbering model; on that domain absence of violations is established, which is the whole statement.",
   note="Trusted: the harness's own card numbering (cards.rs), Card::new and enum pattern matching. Reversed range endpoints are outside the statement and not generated.",
   ref="DESIGN.md section 4 (C13)"),
 "C14": dict(
   technique="exhaustive enumerating generators (pairs, tokens, rank pairs) + proptest explicit-token lists, algebraic/round-trip/canonical-form oracle",
   category="exploration",
   text="All 52x51 ordered pairs of distinct cards are generated; equality, hashes under two hashers, canonical element order, text round trip in both card orders and single-entry ranges are checked for each. For the consequence clause every pair the library builds itself (expansion of all 3,796 tokens and of all RankPair values in either rank order, parsed 'X,mirror X' ranges, leftover view, generated lists of up to 430 explicit card-pair tokens) must be in that canonical form and each combo stored once.",
   note="Trusted: model card order (rank ace..deuce, then s,h,d,c); std hashers.",
   ref="DESIGN.md section 4 (C14)"),
 "C15": dict(
   technique="proptest model-based interleaving histories on one thread + sampled thread schedules and iterator hand-over in an isolated binary with compile-time Send/Sync assertions",
   category="exploration",
   text="Generated schedules of next() calls over 1-6 live evaluators (identical ones, same inputs with different scopes, bursts, finish-then-resume, dropping an iterator mid-run and starting a fresh one) must give every evaluator exactly the sequence it gives alone; this is deterministic, shrinks and replays. Thread rounds (1-19 evaluators behind a barrier, moved evaluators, Arc-shared ranges, showdowns sent through channels, iterators handed over mid-run to a thread that interleaves them with its own evaluator, 4-16 simultaneous long drains) sample OS schedules. Schedules also build evaluators with an invalid board (fourth card, duplicate flop card, two cards) under catch_unwind and batches of about 250 or 65,500 short-lived evaluators, after which the case's evaluators are restarted. Half of the thread cases begin with a cold round in which the concurrent evaluators are the first the process creates. Send+Sync for the public types is asserted at compile time in the isolated binary; a compile failure there is reported as a violation.",
   note="OS schedules are sampled, not controlled (the crate has no synchronisation to instrument). Sequence equality relies on deterministic HashMap iteration for identically constructed ranges (FxHash, no random state).",
   ref="DESIGN.md section 4 (C15)"),
 "C16": dict(
   technique="exhaustive enumeration of worker counts + proptest large n, validity predicate and end-to-end differential against the unscoped run",
   category="exploration",
   text="calculate_scopes is compiled from the example's own file; every n in 1..=32,768 (thorough 262,144) plus sampled n up to 2^27 (incl. the neighbourhood of 2^24) must give n contiguous, non-decreasing scopes from (0,1) to (48,49) over valid positions; for every n <= 1,024 (thorough 4,096) and sampled larger n the scopes are fed to real evaluators as the example does and the concatenated showdowns must equal the single-threaded run.",
   note="End-to-end uses two fixed cheap configurations. n beyond 2^27 is not generated (a scope list of that length no longer fits comfortably in memory).",
   ref="DESIGN.md section 4 (C16)", engine="c16_scopes"),
 "C17": dict(
   technique="proptest model-based construction histories + exhaustive row sweeps, canonical-form oracle (history independence + maximal-run structure via an independent tokenizer)",
   category="exploration",
   text="For generated target ranges 5-7 construction histories (permuted insertion, overwritten wrong weights, duplicates, capacity-changing repeats, parse of own text, parse of a shuffled non-canonical text with a superseded token, collection from bare pairs) must give equal ranges and byte-identical text; the text is read by the model's tokenizer and its rank-pair tokens must correspond one-to-one, in row order, to the model's maximal equal-weight runs, followed by single-combo tokens whose set equals the leftovers. Formatting calls cut short by a failing sink precede some of the compared histories. Long formatting histories (about 2^8 / 2^16 calls between two neighbouring ranges) must reproduce the first text.",
   note="Duplicate leftover tokens for partial pocket pairs are tolerated (pinned by a repository test). Histories are sampled.",
   ref="DESIGN.md section 4 (C17)"),
}
ALL = ["C%02d" % i for i in range(1, 18)]

checks = []
for pid in ALL:
    if pid not in BUILT:
        continue
    b = BUILT[pid]
    checks.append({
        "property_id": pid,
        "quick_cmd": "./check %s quick" % pid,
        "thorough_cmd": "./check %s thorough" % pid,
        "evidence_file": "/verif/evidence/%s.json" % pid,
        "replay_cmd_template": "./check %s --replay {path}" % pid,
        "engine": b.get("engine", "espada_verif"),
        "level_claimed": {"category": b["category"], "text": b["text"], "design_ref": b["ref"]},
        "level_note": b["note"],
        "technique": b["technique"],
    })

man = {
    "version": 1,
    "setup_cmd": "./setup.sh",
    "hooks": {
        "guard": "espada_verif",
        "enable": "no hooks are needed: every observation point is public API (or a source file included by path); checks build /repo's working tree unchanged through a cargo path dependency",
        "baseline_off_cmd": "cd /repo && cargo test --workspace --no-fail-fast --offline",
        "source_commits": [],
        "add_only": True,
    },
    "engines": [
        {"name": "espada_verif", "path": "/verif/harness", "serves_properties": [c["property_id"] for c in checks if c["engine"] == "espada_verif"],
         "kind_free_text": "Rust harness crate (proptest 1.11 as a library, enumerating generators, model oracles, replay files); espada is a cargo path dependency on /repo so every run rebuilds the current working tree; helper binaries c08_child (3 profiles: release, dbgchk, optchk) and c15_threads; each check runs against up to five builds of espada (release, debug profile, release for each x86-64 level v2/v3/v4 the CPU has)"},
        {"name": "c16_scopes", "path": "/verif/harness/src/bin/c16_scopes.rs", "serves_properties": ["C16"],
         "kind_free_text": "isolated binary of the same crate that #[path]-includes /repo/examples/multi-thread/scope.rs"},
    ],
    "checks": checks,
    "not_applicable": [{"property_id": p, "reason": "check not built yet (framework under construction; the design in DESIGN.md section 4 applies)"} for p in ALL if p not in BUILT],
    "notes": "Driver: ./check <ID> <quick|thorough> | ./check <ID> --replay <file>. Exit 0 held / 1 violation (VIOLATION line) / 2 inconclusive. VERIF_SEED selects the proptest seeds. Every run first replays the committed regression cases of its property (regressions/), then runs the release-build streams, then (except C01/C07 quick, and C08 which always runs both profiles) a scaled-down replica against a debug-profile build of espada (evidence/<ID>.debug_profile.json) and one against a release build for each of -C target-cpu=x86-64-v2, -v3, -v4 (evidence/<ID>.cpu_v2|v3|v4.json; a level the CPU lacks is skipped with a note) - code under #[cfg(target_feature)] or debug_assert!/overflow checks exists in one build only; --replay re-runs a case that holds in the release build in the other builds; thorough additionally runs the libFuzzer campaigns where a target exists.",
}
json.dump(man, open("/verif/MANIFEST.json", "w"), indent=1)
print("wrote MANIFEST.json with", len(checks), "checks")
