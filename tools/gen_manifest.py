#!/usr/bin/env python3
"""Regenerates /verif/MANIFEST.json from the table below (single source of truth for the
registered commands).  Properties without a built check are listed under not_applicable with
the reason 'not built yet' while the framework is under construction."""
import json

BUILT = {
 "C01": dict(
   technique="exhaustive enumerating generator over all C(52,7) sets + proptest targeted sets/pairs, differential against a from-the-rules best-of-21 reference classifier",
   category="exploration",
   text="Every one of the 133,784,560 seven-card sets is generated (both tiers) and evaluated in ascending, descending, flush-scan-adversarial and seeded shuffled orders against the class of the best of its 21 five-card subsets under an independent classifier; all 5,040 orders for a sample; 2M/20M hand pairs (shared boards, mirrored hole cards for ties) check ==,<,partial_cmp,cmp against poker order. Exhaustive over sets, sampled over orders.",
   note="Trusted: the harness's 5-card classifier (two implementations cross-checked on all 2,598,960 hands; 7,462 classes and per-category counts asserted at start-up). Orders: all 7! only for sampled sets.",
   ref="DESIGN.md section 4 (C01)"),
 "C02": dict(
   technique="proptest structured generation + reference enumeration model (multiset equality both ways)",
   category="exploration",
   text="Generated (flop, 1-6 ranges) configurations - card-pool ranges with frequent player-player blocking, ranges overlapping the flop, identical ranges, sizes 1..1326 including 255/256/257 and >255 beside narrow ranges - are drained and compared as multisets with an independent enumeration of all legal deals: nothing missing, nothing extra, nothing twice; board layout, hole cards per seat and probability = product of weights are checked per showdown. Sampled; a cost budget bounds the product of range sizes per case.",
   note="Trusted: the harness's enumeration model (evalmodel.rs). Probability is compared within (n+1) f32 roundings because the statement fixes the value, not the multiplication order. Weights from {0} U [2^-10,1].",
   ref="DESIGN.md section 4 (C02)"),
 "C03": dict(
   technique="proptest structured generation (board archetypes, mirrored hole cards) + reference-class oracle",
   category="exploration",
   text="1.7M (quick) / 45M (thorough) generated tables of 1-23 players on category-targeted boards with mirrored and rank-sharing hole cards (two-way, multi-way and everybody-ties patterns each a measured share of cases), plus injected board collisions; winners must be exactly the players whose reference class (best of 21) is the table minimum, winner_len the flagged count, players/cards/probability as given.",
   note="Trusted: the reference classifier of C01. Hole cards colliding with each other are outside the statement and not generated.",
   ref="DESIGN.md section 4 (C03)"),
 "C04": dict(
   technique="exhaustive enumeration of all (from,to) windows for fixed configurations + proptest model-based histories (scope calls, chains) against the unscoped run",
   category="exploration",
   text="For 2 (quick) / 6 (thorough) fixed configurations every one of the 693,253 ordered windows from <= to over the 1177 positions is generated and the scoped run compared, position by position, with the unscoped run's window, with three further next() calls after exhaustion. Generated histories over small random configurations add repeated scope() calls (last wins), windows biased to row edges/terminal/empty, and chains of 0-63 cuts whose concatenation must equal the full run.",
   note="Trusted: the unscoped run of the same build as reference (C02 decides that it is the right enumeration); 64-bit showdown fingerprints. Only valid positions with from <= to are generated.",
   ref="DESIGN.md section 4 (C04)"),
 "C07": dict(
   technique="exhaustive enumerating generator over all C(52,7) sets + directed category-boundary cases, oracle = category of the reference best-of-21 class",
   category="exploration",
   text="All 133,784,560 sets (hence all 4,824 reachable power indexes) plus the strongest and weakest reachable hand of every category are generated; the Debug name of hand_type() must equal the category of the best five-card hand under the independent classifier.",
   note="Trusted: the harness's 5-card classifier (self-checked). The category enum is only reachable through its Debug output.",
   ref="DESIGN.md section 4 (C07)"),
 "C08": dict(
   technique="proptest structured generation + child-process execution on a 2 MiB thread in two build profiles (crash/panic/over-production oracle)",
   category="exploration",
   text="Generated configurations aimed at the failure modes the statement names (longest blocked runs inside a window, sizes 0/1/255/256/257/511/512/513/1326, empty ranges at any seat, all-blocked ranges, full drains) are drained in a child process on a 2 MiB thread, once in a release and once in a debug-profile build of espada; any panic, signal (stack overflow), over-production, or output with an empty range is a violation.",
   note="Trusted: the OS reporting the child's death; an infinite silent loop can only hit the watchdog (exit 2). Debug profile = espada at opt-level 0 with overflow checks and debug assertions, dependencies optimised.",
   ref="DESIGN.md section 4 (C08)"),
 "C11": dict(
   technique="proptest metamorphic testing (suit relabelling, player permutation) over integer win/tie tallies",
   category="exploration",
   text="Generated suit-asymmetric configurations (flush-prone flops, single-suit ranges, pools, a mirrored player for ties, >255-combo ranges beside narrow ones) are evaluated three times: as given, with one of the 23 non-identity suit permutations applied to flop and ranges, and with the players permuted; integer tallies wins[player][k-way] must be equal resp. permuted, and in every showdown flagged winners == winner_len >= 1. Thorough adds all 24 relabellings for a sample.",
   note="Trusted: nothing beyond the relation itself (no reference evaluator is involved); category lookup for the non-triviality rule uses the harness's class table.",
   ref="DESIGN.md section 4 (C11)"),
 "C13": dict(
   technique="exhaustive enumerating generator + model oracle (round trips, order/numbering model)",
   category="exploration",
   text="Complete enumeration of the finite domain the property names (52 cards, 52 bit words, all ASCII strings of length <= 2 (quick) / <= 3 (thorough), all rank/suit pairs and ordered range endpoints) against an independent numbering model; on that domain absence of violations is established, which is the whole statement.",
   note="Trusted: the harness's own card numbering (cards.rs), Card::new and enum pattern matching. Reversed range endpoints are outside the statement and not generated.",
   ref="DESIGN.md section 4 (C13)"),
 "C14": dict(
   technique="exhaustive enumerating generator + algebraic/round-trip oracle",
   category="exploration",
   text="All 52x51 ordered pairs of distinct cards are generated; equality, hashes under two hashers, canonical element order, text round trip in both card orders and single-entry ranges are checked for each. The domain is finite and fully covered.",
   note="Trusted: model card order (rank ace..deuce, then s,h,d,c); std hashers.",
   ref="DESIGN.md section 4 (C14)"),
 "C15": dict(
   technique="proptest model-based interleaving histories on one thread + sampled thread schedules and iterator hand-over in an isolated binary with compile-time Send/Sync assertions",
   category="exploration",
   text="Generated schedules of next() calls over 1-6 live evaluators (identical ones, same inputs with different scopes, bursts, finish-then-resume) must give every evaluator exactly the sequence it gives alone; this is deterministic, shrinks and replays. Thread rounds (1-19 evaluators behind a barrier, moved evaluators, Arc-shared ranges, showdowns sent through channels, iterators handed over mid-run) sample OS schedules. Send+Sync for the public types is asserted at compile time in the isolated binary; a compile failure there is reported as a violation.",
   note="OS schedules are sampled, not controlled (the crate has no synchronisation to instrument). Sequence equality relies on deterministic HashMap iteration for identically constructed ranges (FxHash, no random state).",
   ref="DESIGN.md section 4 (C15)"),
}
ALL = ["C%02d" % i for i in range(1, 18)]

checks = []
for pid in ALL:
    if pid not in BUILT:
        continue
    b = BUILT[pid]
    checks.append({
        "property_id": pid,
        "quick_cmd": "./check %s quick" % pid,
        "thorough_cmd": "./check %s thorough" % pid,
        "evidence_file": "/verif/evidence/%s.json" % pid,
        "replay_cmd_template": "./check %s --replay {path}" % pid,
        "engine": b.get("engine", "espada_verif"),
        "level_claimed": {"category": b["category"], "text": b["text"], "design_ref": b["ref"]},
        "level_note": b["note"],
        "technique": b["technique"],
    })

man = {
    "version": 1,
    "setup_cmd": "./setup.sh",
    "hooks": {
        "guard": "espada_verif",
        "enable": "no hooks are needed: every observation point is public API (or a source file included by path); checks build /repo's working tree unchanged through a cargo path dependency",
        "baseline_off_cmd": "cd /repo && cargo test --workspace --no-fail-fast --offline",
        "source_commits": [],
        "add_only": True,
    },
    "engines": [
        {"name": "espada_verif", "path": "/verif/harness", "serves_properties": [c["property_id"] for c in checks],
         "kind_free_text": "Rust harness crate (proptest 1.11 as a library, enumerating generators, model oracles, replay files); espada is a cargo path dependency on /repo so every run rebuilds the current working tree"},
    ],
    "checks": checks,
    "not_applicable": [{"property_id": p, "reason": "check not built yet (framework under construction; the design in DESIGN.md section 4 applies)"} for p in ALL if p not in BUILT],
    "notes": "Driver: ./check <ID> <quick|thorough> | ./check <ID> --replay <file>. Exit 0 held / 1 violation (VIOLATION line) / 2 inconclusive. VERIF_SEED selects the proptest seeds.",
}
json.dump(man, open("/verif/MANIFEST.json", "w"), indent=1)
print("wrote MANIFEST.json with", len(checks), "checks")
