#!/bin/bash
# tools/thorough_all.sh [seed]   every registered thorough command once, with timing
cd "$(dirname "$0")/.."
S="${1:-0}"
IDS=$(python3 -c "import json;print(' '.join(c['property_id'] for c in json.load(open('MANIFEST.json'))['checks']))")
bad=0
for p in $IDS; do
  t0=$(date +%s)
  out=$(VERIF_SEED=$S ./check $p thorough 2>&1); code=$?
  t1=$(date +%s)
  echo "$p thorough seed=$S exit=$code $((t1-t0))s"
  echo "$out" | grep -E "^\[|VIOLATION|INCONCLUSIVE|unavailable|held on|violation\(s\)" | sed 's/^/    /' | tail -14
  [ $code != 0 ] && bad=$((bad+1))
done
echo "thorough_all: $bad non-zero exits"
